"""C10 - frame views never go stale, never alias what they promise to copy.

Specification: spec/frame/FrameViews.tla - a state machine: heap of arrays / jpg blobs `[kind, w, ver, src, sv, conv]`,
frames `[img, fmt, jpg, crgb, cbgr, cgray]`, one action per public operation of openfilter.filter_runtime.frame.Frame
plus Poke (in-place edit of a writable array).  TLC proves Fresh / NoAlias / RoStaysRo / JpgOnlyOnFrozen / JpgFresh on
the intended design (Defects = {}) for every sequence of <= 3 (quick) / 4 (thorough) operations from each of the 12
start frames, and must exhibit the counterexample with each defect switched on.

Binding spec -> code:
 * cover: TLC enumerates every transition of the model of the code as it stands (history variable `path` hidden by VIEW,
   printing ACTION_CONSTRAINT); every transition's path is replayed on real Frame objects (3 image sizes, coordinate
   encoding pixels); the final real world is projected (sharing structure of arrays / jpg blobs / cached frames,
   flags.writeable, pixel and jpg contents, returned object) and compared with the model state;
 * -simulate behaviours of length 12 replayed the same way with a comparison after every step;
 * seeded random walks of length 12..16 directly on the real objects.
In all three the *property monitors* (class Monitor: the property's formulas evaluated on the real objects only, no
model involved) run after every step; only they produce violations.  A mismatch with the model alone is DRIFT.
"""
import ast
import functools
import json
import multiprocessing as mp
import os
import pickle
import re
import shutil
import threading
import zlib

import numpy as np

from . import common
from .common import Report, run_tlc, tlc_must_pass, SPEC, MachineryError

SPEC_DIR = os.path.join(SPEC, 'frame')
MODULE = 'FrameViews'
SIZES = ((4, 5), (16, 12), (33, 47))          # (height, width)
POKE = 37                                      # an in-place edit adds 37 (mod 256) to every pixel of the array
ATTR_OPS = ('rw', 'ro', 'rgb', 'bgr', 'gray', 'rw_rgb', 'rw_bgr', 'ro_rgb', 'ro_bgr')
FRAME_OPS = ('copy',) + ATTR_OPS + ('image', 'jpg', 'pickle', 'ff_same', 'ff_relabel', 'fromarray', 'fromjpg_lazy',
                                    'fromjpg_now')
VIEW_OPS = frozenset(FRAME_OPS) - {'image', 'jpg', 'fromjpg_lazy', 'fromjpg_now'}
GENUINE = 'ro_x_caches_writable'

cv2 = None
Frame = None


def _load():
    """Import the code under test (after use_repo) and cv2."""
    global cv2, Frame
    if Frame is None:
        common.use_repo()
        import cv2 as _cv2
        _cv2.setNumThreads(1)
        from openfilter.filter_runtime.frame import Frame as _F
        cv2, Frame = _cv2, _F
    return Frame


# ---------------------------------------------------------------------------------------------------------------------
# concrete pixels

_PAT = {}


def pattern(h, w, fmt):
    """Coordinate-encoding pixels: every channel differs from the others everywhere, so a channel swap is visible.
    (read-only master copy; users copy it)"""
    k = (h, w, fmt)
    if k not in _PAT:
        y, x = np.mgrid[0:h, 0:w]
        if fmt == 'GRAY':
            a = ((y * 31 + x * 7 + 11) % 256).astype(np.uint8)
        else:
            a = np.stack([(y * 31 + x * 7 + c * 85 + 11) % 256 for c in range(3)], axis=2).astype(np.uint8)
        a.flags.writeable = False
        _PAT[k] = a
    return _PAT[k]


# the harness' own codec calls are memoised by content (they never touch objects of the code under test)
@functools.lru_cache(maxsize=16384)
def _enc(raw, shape):
    ok, buf = cv2.imencode('.jpg', np.frombuffer(raw, np.uint8).reshape(shape))
    if not ok:
        raise MachineryError('cv2.imencode failed in the harness')
    return bytes(memoryview(buf))


@functools.lru_cache(maxsize=16384)
def _dec(blob, gray):
    a = cv2.imdecode(np.frombuffer(blob, np.uint8), 0 if gray else cv2.IMREAD_COLOR)
    if a is not None:
        a.flags.writeable = False
    return a


def encode(img):
    img = np.ascontiguousarray(img)
    return _enc(img.tobytes(), img.shape)


def decode(blob, fmt_or_flag):
    return _dec(bytes(blob), fmt_or_flag in ('GRAY', 'decG'))


def conv_pixels(px, frm, to):
    """Reference conversion of the property: exact channel swap RGB<->BGR, cv2 luminance to GRAY, replication from GRAY."""
    if frm == to:
        return px
    if to == 'GRAY':
        return cv2.cvtColor(np.ascontiguousarray(px), cv2.COLOR_RGB2GRAY if frm == 'RGB' else cv2.COLOR_BGR2GRAY)
    if frm == 'GRAY':
        return np.repeat(px[:, :, None], 3, axis=2)
    return px[:, :, ::-1]


CONVF = {
    'id': lambda x: x if isinstance(x, bytes) else x.copy(),
    'swap': lambda x: x[:, :, ::-1],
    'lumRGB': lambda x: cv2.cvtColor(np.ascontiguousarray(x), cv2.COLOR_RGB2GRAY),
    'lumBGR': lambda x: cv2.cvtColor(np.ascontiguousarray(x), cv2.COLOR_BGR2GRAY),
    'rep': lambda x: np.repeat(x[:, :, None], 3, axis=2),
    'enc': lambda x: encode(x),
    'decC': lambda x: decode(x, 'decC'),
    'decG': lambda x: decode(x, 'decG'),
}

_START_JPG = {}


def start_jpg(h, w, fmt):
    k = (h, w, fmt)
    if k not in _START_JPG:
        _START_JPG[k] = encode(pattern(h, w, fmt))
    return _START_JPG[k]


# ---------------------------------------------------------------------------------------------------------------------
# the real world

def raw_image(fr):
    return fr._Frame__image


def raw_jpg(fr):
    return fr._Frame__jpg


def kind_of(fr):
    im = raw_image(fr)
    return 'lazy' if im is False else 'rw' if im.flags.writeable else 'ro'


def pixels_of(fr):
    """The pixels a frame shows, without changing the frame (a jpg-only frame is decoded on the side)."""
    im = raw_image(fr)
    if im is False:
        return decode(raw_jpg(fr), fr.format)
    return im


class Event:
    __slots__ = ('op', 'a', 'src', 'ret', 'blob', 'exc', 'pre_kind', 'pre_fmt', 'ret_known', 'array')

    def __init__(self, **kw):
        for k in self.__slots__:
            setattr(self, k, kw.get(k))


class World:
    """Real Frame objects, addressed like the model: frames[i - 1] is model frame i (creation order)."""

    def __init__(self, kind, fmt, size, variant=0):
        h, w = size
        self.kind, self.fmt, self.size = kind, fmt, size
        self.start_pixels = pattern(h, w, fmt)
        self.start_jpg = None
        self.keep = []                                     # references handed out by .image / .jpg stay alive
        if kind in ('rw', 'ro'):
            arr = self.start_pixels.copy()
            if kind == 'ro':
                arr.flags.writeable = False
            fr = Frame(arr, None, fmt)
        else:
            self.start_jpg = start_jpg(h, w, fmt)
            blob = bytearray(self.start_jpg) if variant % 2 else self.start_jpg
            if kind == 'lazy':
                fr = Frame.from_jpg(blob, None, h, w, fmt)
            else:
                fr = Frame.from_jpg(blob, None, None, None, fmt)
        self.frames = [fr]

    def index(self, fr):
        for i, g in enumerate(self.frames):
            if g is fr:
                return i + 1
        return 0

    def enabled(self, op, a):
        if not 1 <= a <= len(self.frames):
            return False
        fr = self.frames[a - 1]
        if op == 'poke':
            return kind_of(fr) == 'rw'
        if op == 'ff_relabel':
            return fr.format in ('RGB', 'BGR')
        return True

    def step(self, op, a):
        fr = self.frames[a - 1]
        ev = Event(op=op, a=a, src=fr, pre_kind=kind_of(fr), pre_fmt=fr.format)
        try:
            if op == 'poke':
                arr = raw_image(fr)
                np.add(arr, np.uint8(POKE), out=arr)
                ev.array = arr
            elif op in ATTR_OPS:
                ev.ret = getattr(fr, op)
            elif op == 'copy':
                ev.ret = fr.copy()
            elif op == 'image':
                ev.array = fr.image
                self.keep.append(ev.array)
                ev.ret = fr
            elif op == 'jpg':
                ev.blob = fr.jpg
                self.keep.append(ev.blob)
                ev.ret = fr
            elif op == 'pickle':
                ev.ret = pickle.loads(pickle.dumps(fr))
            elif op == 'ff_same':
                ev.ret = Frame(fr, {'n': len(self.frames)})
            elif op == 'ff_relabel':
                ev.ret = Frame(fr, None, 'BGR' if fr.format == 'RGB' else 'RGB')
            elif op == 'fromarray':
                ev.ret = Frame(fr.image, fr)
            elif op == 'fromjpg_lazy':
                ev.blob = fr.jpg
                ev.ret = Frame.from_jpg(ev.blob, None, fr.height, fr.width, fr.format)
            elif op == 'fromjpg_now':
                ev.blob = fr.jpg
                ev.ret = Frame.from_jpg(ev.blob, None, None, None, fr.format)
            else:
                raise MachineryError(f'unknown operation {op}')
        except MachineryError:
            raise
        except Exception as e:                             # raised by the code under test: an observation
            ev.exc = f'{type(e).__name__}: {e}'[:200]
            ev.ret = None
        if isinstance(ev.ret, Frame):
            ev.ret_known = self.index(ev.ret) != 0
            if not ev.ret_known:
                self.frames.append(ev.ret)
        return ev

    def all_frames(self):
        """Listed frames plus frames reachable only through the __ro_* caches."""
        out = list(self.frames)
        seen = {id(f) for f in out}
        i = 0
        while i < len(out):
            for attr in ('_Frame__ro_rgb', '_Frame__ro_bgr', '_Frame__ro_gray'):
                c = getattr(out[i], attr, None)
                if isinstance(c, Frame) and id(c) not in seen:
                    seen.add(id(c))
                    out.append(c)
            i += 1
        return out


# ---------------------------------------------------------------------------------------------------------------------
# the property, evaluated on the real objects only

def exp_fmt(op, fmt):
    if op in ('rgb', 'rw_rgb', 'ro_rgb'):
        return 'RGB'
    if op in ('bgr', 'rw_bgr', 'ro_bgr'):
        return 'BGR'
    if op == 'gray':
        return 'GRAY'
    if op == 'ff_relabel':
        return 'BGR' if fmt == 'RGB' else 'RGB'
    return fmt


def new_copy_call(op, pre_kind, fmt):
    """Calls whose documentation promises a NEW copy (frame.py docstrings of copy/rw/ro/rw_*/ro_*)."""
    if op == 'rw':
        return pre_kind != 'rw'
    if op in ('ro', 'copy'):
        return pre_kind == 'rw'
    if op in ('rw_rgb', 'rw_bgr'):
        return not (pre_kind == 'rw' and fmt == exp_fmt(op, fmt))
    if op in ('ro_rgb', 'ro_bgr'):
        return not (pre_kind != 'rw' and fmt == exp_fmt(op, fmt))
    return False


def family(op):
    return ('ro_x' if op in ('ro_rgb', 'ro_bgr') else 'rw_x' if op in ('rw_rgb', 'rw_bgr') else
            'fmt' if op in ('rgb', 'bgr', 'gray') else op)


class Monitor:
    """C10's formulas on real objects.  `check(world, ev)` returns a list of (text, signature) - each one a concrete
    falsification of the property on the objects at hand."""

    def __init__(self):
        self.ro_seen = {}        # id -> ndarray seen read-only (kept alive)
        self.jpg_ok = {}         # (id(jpg), id(img), crc of pixels) -> bool
        self.keep = []

    def jpg_matches(self, blob, img, fmt):
        """blob is the jpg encoding of img's pixels, or img is exactly what blob decodes to."""
        key = (id(blob), id(img), zlib.crc32(np.ascontiguousarray(img).tobytes()))
        r = self.jpg_ok.get(key)
        if r is None:
            self.keep.append((blob, img))
            r = bytes(blob) == encode(img)
            if not r:
                d = decode(blob, fmt)
                r = d is not None and d.shape == img.shape and np.array_equal(d, img)
            self.jpg_ok[key] = r
        return r

    def check(self, world, ev):
        out = []
        op, S, R = ev.op, ev.src, ev.ret
        if ev.exc is None and op in VIEW_OPS and isinstance(R, Frame):
            # Fresh: the view shows the pixels its source has now
            want_fmt = exp_fmt(op, ev.pre_fmt)
            if R.format != want_fmt:
                out.append((f'{op} of a {ev.pre_fmt} frame returned a {R.format} frame',
                            {'kind': 'wrong_format', 'accessor': op}))
            else:
                ps, pr = pixels_of(S), pixels_of(R)
                want = ps if op == 'ff_relabel' else conv_pixels(ps, S.format, R.format)
                if pr is None or pr.shape != want.shape or not np.array_equal(pr, want):
                    out.append((f'{op} on a {ev.pre_kind} {ev.pre_fmt} frame returned a view whose pixels are not '
                                f'{"the" if S.format == R.format else "the converted"} pixels its source has now'
                                f'{" (a previously returned, cached frame)" if ev.ret_known and R is not S else ""}',
                                {'kind': 'stale_view', 'family': family(op), 'returned_cached': bool(ev.ret_known),
                                 'source_writable': ev.pre_kind == 'rw'}))
            # NoAlias: documented NEW copies share no memory with their source
            if new_copy_call(op, ev.pre_kind, ev.pre_fmt):
                ri, si = raw_image(R), raw_image(S)
                if R is S or not isinstance(ri, np.ndarray) or (isinstance(si, np.ndarray)
                                                                  and np.shares_memory(ri, si)):
                    out.append((f'{op} on a {ev.pre_kind} {ev.pre_fmt} frame is documented to return a NEW copy but '
                                f'the result shares memory with its source',
                                {'kind': 'alias_source', 'family': family(op)}))
        if ev.exc is None and ev.blob is not None:
            # the jpg handed out encodes (or is the origin of) the pixels the frame shows now
            si = raw_image(S)
            if isinstance(si, np.ndarray) and not self.jpg_matches(ev.blob, si, S.format):
                out.append((f'{op}: the jpg handed out by a {ev.pre_kind} frame does not encode the pixels the frame '
                            f'has now', {'kind': 'stale_jpg', 'where': 'returned'}))
        frames = world.all_frames()
        arrays = {}
        for f in frames:
            im = raw_image(f)
            if isinstance(im, np.ndarray):
                arrays[id(im)] = im
        # RoStaysRo: an array seen read-only never becomes writable, and no frame holds a writable window onto it
        for a in self.ro_seen.values():
            if a.flags.writeable:
                out.append((f'after {op}: an image that was read-only is now writable (same ndarray object)',
                            {'kind': 'ro_made_writable'}))
                break
        ros = [a for a in arrays.values() if not a.flags.writeable]
        rws = [a for a in arrays.values() if a.flags.writeable]
        for a in ros:
            self.ro_seen[id(a)] = a
        alias = any(np.shares_memory(a, b) for a in ros for b in rws)
        if alias:
            out.append((f'after {op}: a writable image held by a frame shares memory with a read-only image held by '
                        f'a frame', {'kind': 'writable_alias_of_ro'}))
        # JpgOnlyOnFrozen: cached jpg only on read-only pixels, and it encodes / decodes to exactly those pixels
        for f in frames:
            j, im = raw_jpg(f), raw_image(f)
            if j and isinstance(im, np.ndarray):
                if im.flags.writeable:
                    out.append((f'after {op}: a frame holds a cached jpg while its image is writable',
                                {'kind': 'jpg_on_writable'}))
                elif not self.jpg_matches(j, im, f.format):
                    out.append((f'after {op}: a cached jpg does not correspond to the pixels of its frame',
                                {'kind': 'stale_jpg', 'where': 'cached'}))
        return out


# ---------------------------------------------------------------------------------------------------------------------
# model states (compact tuples) and the conformance comparison

def to_py(s):
    """TLC ToString of nested tuples -> python tuples."""
    s = s.replace('<<>>', '()').replace('<<', '(').replace('>>', ',)').replace('TRUE', 'True').replace('FALSE', 'False')
    return ast.literal_eval(s)


def parse_tr_line(line):
    body = line[1:-1].replace('\\"', '"')
    tag, path, heap, frames, last = to_py(body)
    if tag != 'TR':
        raise MachineryError(f'bad cover line {line[:80]}')
    return path, heap, frames, last


def state_from_records(st):
    """A state parsed by common.parse_state (records) -> (path, heap, frames, last) in compact form."""
    heap = tuple((o['kind'], o['w'], o['ver'], o['src'], o['sv'], o['conv']) for o in st['heap'])
    frames = tuple((f['img'], f['fmt'], f['jpg'], f['crgb'], f['cbgr'], f['cgray']) for f in st['frames'])
    la = st['last']
    last = (la['op'], la['a'], la['ret'], la['blob'], la['h0'], la['sk'])
    path = tuple((l['op'], l['a']) for l in st['path'])
    return path, heap, frames, last


def model_content(heap, i, v, world, memo):
    """Concrete content the model predicts for heap object i at version v."""
    key = (i, v)
    if key in memo:
        return memo[key]
    kind, _w, _ver, src, sv, conv = heap[i - 1]
    if src == 0:
        base = world.start_jpg if kind == 'jpg' else world.start_pixels
    else:
        base = CONVF[conv](model_content(heap, src, sv, world, memo))
    if kind == 'img' and v:
        base = ((base.astype(np.int64) + POKE * v) % 256).astype(np.uint8)
    memo[key] = base
    return base


def holder_of(frames, b):
    """First frame (creation order) that holds heap object b as its image: how Poke(b) is addressed on real objects."""
    for g, F in enumerate(frames):
        if F[0] == b:
            return g + 1
    return 0


def conform(world, heap, frames, last, ev, corrupt=None):
    """Project the real world into the model's vocabulary and compare.  Returns a list of differences."""
    if corrupt:
        heap, frames = corrupt(heap, frames)
    diffs = []
    if len(frames) != len(world.frames):
        return [f'model has {len(frames)} frames, the real world {len(world.frames)}']
    mnum, rnum, robj = {}, {}, {}
    for F, fr in zip(frames, world.frames):
        for mi, ro in ((F[0], raw_image(fr)), (F[2], raw_jpg(fr))):
            if mi and mi not in mnum:
                mnum[mi] = len(mnum) + 1
            if ro is not False and ro is not None and id(ro) not in rnum:
                rnum[id(ro)] = len(rnum) + 1
                robj[len(rnum)] = ro
    for g, (F, fr) in enumerate(zip(frames, world.frames), 1):
        ri, rj = raw_image(fr), raw_jpg(fr)
        real = (rnum.get(id(ri), 0) if ri is not False else 0, fr.format, rnum.get(id(rj), 0) if rj else 0,
                world.index(getattr(fr, '_Frame__ro_rgb', None)), world.index(getattr(fr, '_Frame__ro_bgr', None)),
                world.index(getattr(fr, '_Frame__ro_gray', None)))
        model = (mnum.get(F[0], 0), F[1], mnum.get(F[2], 0), F[3], F[4], F[5])
        if real != model:
            diffs.append(f'frame {g}: model (img, fmt, jpg, ro_rgb, ro_bgr, ro_gray) = {model}, real = {real}')
    if diffs:
        return diffs
    memo = {}
    for mi, k in mnum.items():
        ro = robj[k]
        kind, w, ver = heap[mi - 1][:3]
        want = model_content(heap, mi, ver, world, memo)
        if kind == 'img':
            if not isinstance(ro, np.ndarray):
                diffs.append(f'object {k}: model image, real {type(ro).__name__}')
                continue
            if bool(ro.flags.writeable) != w:
                diffs.append(f'object {k}: model writable={w}, real flags.writeable={ro.flags.writeable}')
            if ro.shape != want.shape or not np.array_equal(ro, want):
                diffs.append(f'object {k}: pixels differ from the model\'s ({heap[mi - 1]})')
        else:
            if bytes(ro) != want:
                diffs.append(f'object {k}: jpg bytes differ from the model\'s ({heap[mi - 1]})')
    arrs = [o for o in robj.values() if isinstance(o, np.ndarray)]
    for i in range(len(arrs)):
        for j in range(i + 1, len(arrs)):
            if np.shares_memory(arrs[i], arrs[j]):
                diffs.append('two distinct arrays share memory; in the model distinct objects never do')
    if ev is not None:
        if ev.exc is not None:
            diffs.append(f'{ev.op} raised {ev.exc}; the model returns a frame')
        elif last[0] != 'poke':
            if world.index(ev.ret) != last[2]:
                diffs.append(f'{ev.op}({last[1]}) returned frame {world.index(ev.ret)}, model {last[2]}')
            if ev.blob is not None and frames[last[1] - 1][2] == last[3]:
                if ev.blob is not raw_jpg(world.frames[last[1] - 1]):
                    diffs.append(f'{ev.op}: returned jpg is not the cached object')
    return diffs


def real_label(label, frames):
    """Model label -> label on real objects (Poke(b) -> poke through the first frame that holds b)."""
    op, a = label
    if op == 'poke':
        return ('poke', holder_of(frames, a))
    return (op, a)


def start_of(path):
    return path[0][0][len('start_'):]


# ---------------------------------------------------------------------------------------------------------------------
# executing one behaviour with monitors (+ conformance)

def branch_key(ev, n_before, world):
    if ev.op == 'poke':
        return 'poke'
    res = ('exc' if ev.exc else 'self' if ev.ret is ev.src else 'cached' if ev.ret_known else 'new')
    return f'{ev.op}/{ev.pre_kind}/{"same" if exp_fmt(ev.op, ev.pre_fmt) == ev.pre_fmt else "conv"}/{res}'


class Acc:
    """Per-worker accumulator."""

    def __init__(self):
        self.runs = self.steps = self.nontrivial = self.conform_ok = self.drifts = self.skipped = 0
        self.viol = {}        # signature key -> [count, text, witness]
        self.drift = []
        self.branches = {}
        self.hashes = set()
        self.sample = None

    def add_viol(self, text, sig, witness):
        k = json.dumps(sig, sort_keys=True)
        e = self.viol.get(k)
        wk = (len(witness['ops']), json.dumps(witness['ops']), witness['size'])
        if e is None:
            self.viol[k] = [1, text, witness, sig, wk]
        else:
            e[0] += 1
            if wk < e[4]:
                e[1:] = [text, witness, sig, wk]

    def merge(self, o):
        for f in ('runs', 'steps', 'nontrivial', 'conform_ok', 'drifts', 'skipped'):
            setattr(self, f, getattr(self, f) + getattr(o, f))
        for k, e in o.viol.items():
            m = self.viol.get(k)
            if m is None:
                self.viol[k] = list(e)
            else:
                m[0] += e[0]
                if tuple(e[4]) < tuple(m[4]):
                    m[1:] = e[1:]
        self.drift = (self.drift + o.drift)[:20]
        for k, v in o.branches.items():
            self.branches[k] = self.branches.get(k, 0) + v
        self.hashes |= o.hashes
        if self.sample is None:
            self.sample = o.sample


def run_ops(acc, kind, fmt, size, ops, variant=0, final=None, per_step=None, source='cover', corrupt=None):
    """Execute real-object labels `ops` from the given start with the monitors after every step.
    final = (heap, frames, last): compare the final world with this model state.
    per_step = list of (heap, frames, last) per step: compare after every step."""
    world = World(kind, fmt, size, variant)
    mon = Monitor()
    wit_base = {'start': {'kind': kind, 'fmt': fmt}, 'size': list(size), 'variant': variant, 'source': source}
    for text, sig in mon.check(world, Event(op='start', a=1, src=world.frames[0], pre_kind=kind, pre_fmt=fmt)):
        acc.add_viol(text, sig, dict(wit_base, ops=[], step=0))
    ev = None
    done = []
    drifted = False
    for i, (op, a) in enumerate(ops):
        if not world.enabled(op, a):
            acc.skipped += 1
            drifted = True
            if len(acc.drift) < 20:
                acc.drift.append(f'{kind}/{fmt} {ops[:i + 1]}: label not enabled on the real objects')
            break
        n_before = len(world.frames)
        ev = world.step(op, a)
        done.append([op, a])
        acc.steps += 1
        bk = branch_key(ev, n_before, world)
        acc.branches[bk] = acc.branches.get(bk, 0) + 1
        for text, sig in mon.check(world, ev):
            acc.add_viol(text, sig, dict(wit_base, ops=list(done), step=i + 1, detail=text))
        if per_step is not None:
            d = conform(world, *per_step[i], ev, corrupt)
            if d:
                drifted = True
                if len(acc.drift) < 20:
                    acc.drift.append(f'{kind}/{fmt}/{size} after {done}: {d[0]}')
                break
    if final is not None and not drifted:
        d = conform(world, *final, ev, corrupt)
        if d:
            drifted = True
            if len(acc.drift) < 20:
                acc.drift.append(f'{kind}/{fmt}/{size} after {done}: {d[0]}')
    acc.runs += 1
    acc.drifts += drifted
    acc.conform_ok += (not drifted) and (final is not None or per_step is not None)
    if acc.sample is None and len(done) >= 3:
        acc.sample = dict(wit_base, ops=done, frames=[repr(f) for f in world.frames])
    return world


def _sizes_for(path, tier_quick):
    n = len(path) - 1
    if tier_quick or n <= 3:
        return SIZES
    return (SIZES[zlib.crc32(repr(path).encode()) % len(SIZES)],)


def work_cover(args):
    """Pool task: replay a chunk of cover lines."""
    lines, quick = args
    _load()
    acc = Acc()
    for line in lines:
        path, heap, frames, last = parse_tr_line(line)
        kind, fmt = start_of(path), frames[0][1]
        # labels on real objects; Poke(b) is resolved against the final frames (holders only ever grow)
        ops = [real_label(l, frames) for l in path[1:]]
        nontriv = len(heap) > (2 if kind == 'now' else 1) or len(frames) > 1 or any(o[2] for o in heap)
        for size in _sizes_for(path, quick):
            run_ops(acc, kind, fmt, size, ops, variant=len(path), final=(heap, frames, last))
            acc.nontrivial += nontriv
    return acc


def work_sim(args):
    files, = args
    _load()
    acc = Acc()
    for fi, fp in enumerate(files):
        beh = common.parse_sim_file(fp)
        states = [state_from_records(st) for _a, st in beh]
        if len(states) < 2:
            continue
        path, _h, frames, _l = states[-1]
        kind, fmt = start_of(path), frames[0][1]
        ops = [real_label(l, frames) for l in path[1:]]
        acc.hashes.add(hash(path))
        size = SIZES[fi % len(SIZES)]
        run_ops(acc, kind, fmt, size, ops, variant=fi, per_step=[s[1:] for s in states[1:]], source='simulate')
        acc.nontrivial += 1
    return acc


def work_walk(args):
    """Seeded random walks directly on the real objects (no model): monitors only."""
    seed_str, n, lo, hi = args
    import random
    _load()
    r = random.Random(seed_str)
    acc = Acc()
    for k in range(n):
        kind, fmt, size = r.choice(('rw', 'ro', 'lazy', 'now')), r.choice(('RGB', 'BGR', 'GRAY')), r.choice(SIZES)
        length = r.randint(lo, hi)
        world = World(kind, fmt, size, k)
        mon = Monitor()
        done = []
        wit = {'start': {'kind': kind, 'fmt': fmt}, 'size': list(size), 'variant': k, 'source': 'random-walk'}
        for i in range(length):
            for _try in range(8):
                op = 'poke' if r.random() < 0.22 else r.choice(FRAME_OPS)
                a = r.randint(1, len(world.frames))
                if world.enabled(op, a):
                    break
            else:
                continue
            n_before = len(world.frames)
            ev = world.step(op, a)
            done.append([op, a])
            acc.steps += 1
            bk = branch_key(ev, n_before, world)
            acc.branches[bk] = acc.branches.get(bk, 0) + 1
            for text, sig in mon.check(world, ev):
                acc.add_viol(text, sig, dict(wit, ops=list(done), step=i + 1, detail=text))
        acc.runs += 1
        acc.nontrivial += 1
        acc.hashes.add(hash((kind, fmt, size, tuple(map(tuple, done)))))
        if acc.sample is None:
            acc.sample = dict(wit, ops=done, frames=[repr(f) for f in world.frames])
    return acc


# ---------------------------------------------------------------------------------------------------------------------
# TLC side

def probe_defects():
    """Which caching rule does the code under test implement?  Selects the Defects set of the *conformance* model
    (the spec has both variants); the property verdict does not depend on it."""
    f = Frame(pattern(4, 5, 'BGR').copy(), None, 'BGR')       # a writable BGR frame
    return {GENUINE} if f.ro_rgb is f.ro_rgb else set()


def make_cfg(base, tmp, name, kinds=None, fmts=None, defects=None):
    txt = open(os.path.join(SPEC_DIR, base + '.cfg')).read()

    def tla_set(xs):
        return '{' + ', '.join(f'"{x}"' for x in sorted(xs)) + '}'
    if kinds is not None:
        txt = re.sub(r'StartKinds = .*', 'StartKinds = ' + tla_set(kinds), txt)
    if fmts is not None:
        txt = re.sub(r'StartFmts = .*', 'StartFmts = ' + tla_set(fmts), txt)
    if defects is not None:
        txt = re.sub(r'Defects = .*', 'Defects = ' + tla_set(defects), txt)
    p = os.path.join(tmp, name + '.cfg')
    with open(p, 'w') as fh:
        fh.write(txt)
    return p


def counterexample_path(out):
    """Labels of the last `path` printed in a TLC error trace."""
    ms = re.findall(r'/\\ path = (<<.*?>>)\n(?=/\\|\n|$)', out, flags=re.S)
    if not ms:
        return None
    v = common.parse_value(ms[-1])
    fm = re.findall(r'/\\ frames = <<\s*\[img \|-> \d+, fmt \|-> "(\w+)"', out)
    return [(l['op'], fm[-1] if i == 0 and fm else l['a']) for i, l in enumerate(v)]


def selftest():
    """The harness must notice (a) a corrupted model expectation, (b) falsified formulas on real objects."""
    _load()
    heap = (('img', True, 0, 0, 0, 'root'), ('img', False, 0, 1, 0, 'swap'))
    frames = ((1, 'BGR', 0, 2, 0, 0), (2, 'RGB', 0, 0, 0, 0))
    last = ('ro_rgb', 1, 2, 0, 1, 'rw')
    bad = []
    for defect_model in (True,):
        w = World('rw', 'BGR', SIZES[0])
        ev = w.step('ro_rgb', 1)
        cached = getattr(w.frames[0], '_Frame__ro_rgb', None) is not None
        fr = frames if cached else ((1, 'BGR', 0, 0, 0, 0), frames[1])
        if conform(w, heap, fr, last, ev):
            bad.append('a conforming step was rejected: ' + conform(w, heap, fr, last, ev)[0])
        for name, cor in (('writable flag', lambda h, f: ((h[0], h[1][:1] + (True,) + h[1][2:]), f)),
                          ('conversion', lambda h, f: ((h[0], h[1][:5] + ('id',)), f)),
                          ('format', lambda h, f: (h, (f[0], (2, 'BGR') + f[1][2:]))),
                          ('sharing', lambda h, f: (h, (f[0], (1,) + f[1][1:]))),
                          ('version', lambda h, f: ((h[0][:2] + (1,) + h[0][3:], h[1]), f))):
            if not conform(w, heap, fr, last, ev, corrupt=cor):
                bad.append(f'corrupted model expectation ({name}) was not noticed')
    # monitors: hand-made falsifications
    mon = Monitor()
    w = World('rw', 'BGR', SIZES[0])
    S = w.frames[0]
    R = Frame(conv_pixels(raw_image(S), 'BGR', 'RGB').copy(), None, 'RGB')
    w.frames.append(R)
    np.add(raw_image(S), np.uint8(POKE), out=raw_image(S))
    ev = Event(op='ro_rgb', a=1, src=S, ret=R, pre_kind='rw', pre_fmt='BGR', ret_known=True)
    if not any(s['kind'] == 'stale_view' for _t, s in mon.check(w, ev)):
        bad.append('monitor missed a stale view')
    ev = Event(op='rw', a=1, src=S, ret=Frame(raw_image(S)[:], None, 'BGR'), pre_kind='ro', pre_fmt='BGR')
    if not any(s['kind'] == 'alias_source' for _t, s in mon.check(w, ev)):
        bad.append('monitor missed an aliasing copy')
    w2 = World('ro', 'RGB', SIZES[0])
    mon2 = Monitor()
    mon2.check(w2, Event(op='start', a=1, src=w2.frames[0], pre_kind='ro', pre_fmt='RGB'))
    raw_image(w2.frames[0]).flags.writeable = True
    if not any(s['kind'] == 'ro_made_writable' for _t, s in mon2.check(w2, Event(op='image', a=1, src=w2.frames[0],
                                                                               pre_kind='ro', pre_fmt='RGB'))):
        bad.append('monitor missed a read-only image made writable')
    w3 = World('rw', 'BGR', SIZES[0])
    w3.frames[0]._Frame__jpg = bytearray(encode(raw_image(w3.frames[0])))
    k = {s['kind'] for _t, s in Monitor().check(w3, Event(op='image', a=1, src=w3.frames[0], pre_kind='rw',
                                                          pre_fmt='BGR'))}
    if 'jpg_on_writable' not in k:
        bad.append('monitor missed a jpg cached on a writable image')
    w4 = World('ro', 'BGR', SIZES[0])
    w4.frames[0]._Frame__jpg = bytearray(encode(raw_image(w4.frames[0]) + np.uint8(POKE)))
    k = {s['kind'] for _t, s in Monitor().check(w4, Event(op='image', a=1, src=w4.frames[0], pre_kind='ro',
                                                          pre_fmt='BGR'))}
    if 'stale_jpg' not in k:
        bad.append('monitor missed a stale cached jpg')
    # a clean world raises nothing
    acc = Acc()
    run_ops(acc, 'ro', 'BGR', SIZES[1], [('rgb', 1), ('gray', 2), ('jpg', 1), ('pickle', 1), ('rw', 4), ('poke', 5)])
    # (what the monitors say about this history on the real code is a verdict, not a harness matter: run() merges it)
    selftest.clean = acc
    return bad


# ---------------------------------------------------------------------------------------------------------------------

class _Count:
    def __init__(self):
        self.n = 0

    def add(self, _k):
        self.n += 1

    def __len__(self):
        return self.n


def chunks(xs, n):
    return [xs[i:i + n] for i in range(0, len(xs), n)]


def run(ctx):
    _load()
    rep = Report(ctx)
    rep.distinct = _Count()
    quick = ctx.quick
    depth = 3 if quick else 4
    rep.rule = ('case = one operation sequence (start frame kind x format, labels (operation, frame) incl. in-place '
                'edits) executed on real Frame objects of one image size with all monitors after every step; cover '
                'cases: one per transition of the TLC state graph (path to the source state + label), distinct by '
                'construction and counted by hashing the label sequence; non-trivial = the sequence allocates an '
                'array / jpg / frame or edits pixels (sequences made only of calls that return self are trivial); '
                'simulate and random-walk cases: distinct label sequences')
    rep.assumptions = [
        'frames without image and GRAY<->colour relabelling of an existing array are outside the property',
        'in-place edits are whole-array additions of 37 mod 256 through the ndarray a frame holds; writing into a jpg '
        'bytearray or flipping flags.writeable from outside is not an operation of the property',
        'start arrays own their memory (a read-only start array has no writable alias outside the frames)',
        'GRAY is judged against cv2.cvtColor luminance of the source pixels; jpg correspondence is exact '
        '(cached bytes == imencode(pixels) or pixels == imdecode(cached bytes)), cv2 codec determinism trusted',
        'the conformance model variant (Defects of the cover/simulate configurations) is selected by probing whether '
        'ro_rgb of a writable frame returns a cached object; verdicts come from the monitors on real objects only',
    ]
    st = selftest()
    if st:
        raise MachineryError('C10 harness self-test failed: ' + '; '.join(st))
    rep.extra['selftest'] = 'ok: 5 corrupted expectations rejected, 5 hand-made falsifications flagged, clean history silent'
    tmp = common.scratch_dir('c10_')
    total = Acc()
    total.merge(selftest.clean)
    try:
        # ---- 1. the design has the property; the defects are counterexamples ------------------------------------
        cfg = f'{MODULE}_quick' if quick else f'{MODULE}_thorough'
        res = run_tlc(SPEC_DIR, cfg, MODULE, timeout=3000)
        tlc_must_pass(res, cfg)
        rep.add_tlc(cfg, res, f'intended design (Defects = {{}}): Fresh, NoAlias, JpgOnlyOnFrozen, JpgFresh, ViewKind, '
                              f'TypeOK, [][RoStaysRo] for every sequence of <= {depth} operations from 12 start frames')
        cex = {}
        for dcfg, inv in (('defect_stale', 'Fresh'), ('defect_jpg', 'JpgOnlyOnFrozen'), ('defect_rw', 'RoStaysRo')):
            r = run_tlc(SPEC_DIR, f'{MODULE}_{dcfg}', MODULE, workers=1, timeout=1200)
            if r.error or r.timed_out:
                raise MachineryError(f'TLC failed on {dcfg}: {r.error or "timeout"}')
            if r.violated != inv:
                raise MachineryError(f'{dcfg}: TLC must report {inv} violated with the defect switched on, got '
                                     f'{r.violated}')
            rep.add_tlc(f'{MODULE}_{dcfg}', r, f'defect switched on: TLC exhibits the counterexample to {inv}')
            cex[dcfg] = counterexample_path(r.out)
        rep.extra['tlc_counterexamples'] = {k: v for k, v in cex.items()}
        # the specification's counterexample for the genuine defect, replayed on the code (DESIGN 4: a TLC
        # counterexample is a verdict only if the code reproduces it)
        asis = probe_defects()
        rep.extra['conformance_model_defects'] = sorted(asis)
        if cex.get('defect_stale'):
            p = cex['defect_stale']
            kind = p[0][0][len('start_'):]
            a = Acc()
            ops = [(op, 1 if op == 'poke' else x) for op, x in p[1:]]     # Poke(1) = the start frame's array
            for size in SIZES:
                run_ops(a, kind, p[0][1], size, ops, source='tlc-counterexample')
            rep.extra['tlc_counterexample_reproduced_on_code'] = bool(a.viol)
            total.merge(a)
        # ---- 2. cover: every transition of the model of the code as it stands, replayed ---------------------------
        pool = mp.get_context('fork').Pool(common.NCPU)
        try:
            allk, allf = ('rw', 'ro', 'lazy', 'now'), ('BGR', 'RGB', 'GRAY')
            # quick: one TLC run for the 12 start frames; thorough: nine runs (bounded output size; jpg-only and
            # decoded-from-jpg starts together because their worlds merge after the first decoding operation),
            # replayed while the next one is being enumerated
            starts = ([(allk, allf)] if quick else
                      [(k, (f,)) for f in allf for k in (('rw',), ('ro',), ('lazy', 'now'))])
            base = f'{MODULE}_cover_quick' if quick else f'{MODULE}_cover_thorough'
            produced = []
            err = []

            def producer():
                try:
                    for (k, f) in starts:
                        c = make_cfg(base, tmp, f'cover_{"_".join(k)}_{"_".join(f)}', set(k), set(f), asis)
                        r = run_tlc(SPEC_DIR, c, MODULE, timeout=3000, workers=max(4, common.NCPU // 2))
                        produced.append(((k, f), r))
                except Exception as e:   # surfaced below
                    err.append(e)
                    produced.append((None, None))
            th = threading.Thread(target=producer, daemon=True)
            th.start()
            pending = []
            n_tr = 0
            import time
            for i in range(len(starts)):
                while len(produced) <= i:
                    time.sleep(0.05)
                (sk, r) = produced[i]
                if err:
                    raise MachineryError(f'cover TLC run failed: {err[0]}')
                produced[i] = None
                if r.error or r.timed_out or r.violated:
                    raise MachineryError(f'cover TLC run {sk} failed: {r.violated or r.error or "timeout"}\n'
                                         f'{r.out[-2000:]}')
                lines = [l for l in r.out.splitlines() if l.startswith('"<<\\"TR\\"')]
                if len(lines) != r.states - len(sk[0]) * len(sk[1]):
                    raise MachineryError(f'cover {sk}: {len(lines)} transition lines for {r.states} states generated')
                r['out'] = ''
                rep.add_tlc(f'{base}[{"|".join(sk[0])} x {"|".join(sk[1])}]', r, 'transition enumeration of the model of the code as it '
                                                          'stands (path + successor state per transition)')
                n_tr += len(lines)
                lines.sort()
                if len(set(lines)) != len(lines):
                    raise MachineryError(f'cover {sk}: duplicate transition lines')
                pending.append(pool.map_async(work_cover, [(c, quick) for c in chunks(lines, 1500)]))
            for p in pending:
                for a in p.get(timeout=6000):   # cover cases are distinct by construction (checked above)
                    total.merge(a)
            rep.extra['cover_transitions'] = n_tr
            cover_runs = total.runs
            # ---- 3. simulate: behaviours of length 12, compared after every step --------------------------------
            nsim = 300 if quick else 1000
            simdir = os.path.join(tmp, 'sim')
            os.makedirs(simdir)
            c = make_cfg(f'{MODULE}_sim', tmp, 'sim', None, None, asis)
            r = run_tlc(SPEC_DIR, c, MODULE, simulate=f'file={simdir}/b,num={nsim}', depth=13, seed=1000 + ctx.seed,
                        workers=1 if quick else 4, timeout=3000)   # num is per worker
            if r.error or r.timed_out or r.violated:
                raise MachineryError(f'simulation failed: {r.violated or r.error or "timeout"}\n{r.out[-2000:]}')
            rep.add_tlc(f'{MODULE}_sim', r, f'{nsim} random behaviours of 12 operations per TLC worker, for replay')
            files = sorted(os.path.join(simdir, f) for f in os.listdir(simdir))
            sim = Acc()
            for a in pool.map(work_sim, [(c,) for c in chunks(files, 25)]):
                sim.merge(a)
            dups = sim.runs - len(sim.hashes)
            sim.hashes = set()
            rep.extra['simulate'] = {'behaviours': sim.runs, 'steps': sim.steps, 'conform': sim.conform_ok,
                                     'drift': sim.drifts}
            total.merge(sim)
            # ---- 4. random walks on the real objects ------------------------------------------------------------
            nwalk = 400 if quick else 12000
            per = 50 if quick else 250
            walk = Acc()
            for a in pool.map(work_walk, [(f'{ctx.seed}/C10/walk/{i}', per, 12, 16) for i in range(nwalk // per)]):
                walk.merge(a)
            dups += walk.runs - len(walk.hashes)
            walk.hashes = set()
            rep.extra['random_walks'] = {'walks': walk.runs, 'steps': walk.steps}
            total.merge(walk)
        finally:
            pool.terminate()
            pool.join()
    finally:
        shutil.rmtree(tmp, ignore_errors=True)
    rep.traces = total.runs
    rep.evaluations = total.runs
    rep.distinct.n = max(0, total.nontrivial - dups)
    rep.extra['duplicate_random_sequences'] = dups
    rep.extra['steps_executed'] = total.steps
    rep.extra['cover_replays'] = cover_runs
    rep.extra['conforming_replays'] = total.conform_ok
    rep.extra['drifting_replays'] = total.drifts
    rep.extra['branch_counts'] = dict(sorted(total.branches.items()))
    want = {f'{op}/{k}' for op in FRAME_OPS for k in ('rw', 'ro', 'lazy')}
    got = {'/'.join(b.split('/')[:2]) for b in total.branches}
    if want - got or 'poke' not in total.branches:
        raise MachineryError(f'vacuity: operation x source-kind branches never executed: {sorted(want - got)}')
    if total.sample:
        rep.sample(total.sample)
    for d in total.drift[:10]:
        rep.drift_note(d)
    if total.drifts:
        rep.note(f'{total.drifts} replays differ from the model: the design-level TLC result does not transfer as is')
    for k in sorted(total.viol):
        n, text, witness, sig, _wk = total.viol[k]
        witness = dict(witness, witnesses_this_run=n)
        rep.sample({'violating': witness}, 8)
        rep.violation(f'{text}; e.g. start {witness["start"]} size {witness["size"]} ops {witness["ops"]} '
                      f'({n} witnesses this run)', witness, sig)
    rep.exhaustive = total.drifts == 0
    stream_probe(rep, 120 if quick else 2000)
    return rep.finish()


def stream_probe(rep, n):
    """JpgFresh over a stream of DIFFERENT jpg-backed frames (the way a consumer sees them: one frame object after the other, the
    decoded picture of an earlier frame still referenced while the frame itself and its blob are gone): every frame's image is
    the decoding of its own jpg, and no two frames of different pictures share an array."""
    import cv2
    kept, bad = [], 0
    for blobkind in ('bytes', 'bytearray', 'ndarray'):
        for i in range(n // 3):
            h, w = SIZES[i % len(SIZES)]
            fmt = ('BGR', 'RGB', 'GRAY')[i % 3]
            g = np.random.default_rng(7000 + i)
            px = g.integers(0, 256, size=(h, w) if fmt == 'GRAY' else (h, w, 3), dtype=np.uint8)
            jpg = encode(px)
            blob = {'bytes': lambda: bytes(jpg), 'bytearray': lambda: bytearray(jpg), 'ndarray': lambda: np.frombuffer(bytes(jpg), np.uint8)}[blobkind]()
            f = Frame.from_jpg(blob, {}, h, w, fmt)
            del blob
            ref = decode(jpg, fmt)
            rep.case(('stream', blobkind, i))
            rep.traces += 1
            try:
                img = f.image
            except Exception as e_:    # noqa - an observation of the code under test
                bad += 1
                if bad <= 3:
                    rep.violation(f'JpgFresh: frame {i} of a stream of jpg-backed frames ({blobkind} blobs): .image raises '
                                  f'{type(e_).__name__}: {str(e_)[:160]}',
                                  {'mode': 'stream', 'blob': blobkind, 'frame': i, 'fmt': fmt, 'size': [h, w]},
                                  {'family': 'stream', 'kind': 'image_raises'})
                del f
                continue
            if img.shape != ref.shape or not np.array_equal(img, ref):
                bad += 1
                if bad <= 3:
                    rep.violation(f'JpgFresh: frame {i} of a stream of jpg-backed frames ({blobkind} blobs): its image is not the decoding '
                                  f'of its own jpg ({"it is the picture of an earlier frame" if any(img is k or np.shares_memory(img, k) for k in kept) else "differs"})',
                                  {'mode': 'stream', 'blob': blobkind, 'frame': i, 'fmt': fmt, 'size': [h, w]},
                                  {'family': 'stream', 'kind': 'stale_image_across_frames'})
            kept.append(img)
            kept[:] = kept[-8:]
            del f
    rep.extra['stream_probe_frames'] = n - n % 3
    # a jpg-backed frame whose declared size does not match its jpg: .image raises; whatever the frame holds afterwards still obeys
    # the rules (a frame that has a jpg never has a writable image; .rw of it is a new frame)
    for i, (dh, dw) in enumerate(((1, 0), (0, 1), (-1, 0), (2, 3))):
        for fmt in ('BGR', 'RGB', 'GRAY'):
            h, w = SIZES[1]
            g = np.random.default_rng(9000 + i)
            px = g.integers(0, 256, size=(h, w) if fmt == 'GRAY' else (h, w, 3), dtype=np.uint8)
            f = Frame.from_jpg(bytes(encode(px)), {}, h + dh, w + dw, fmt)
            rep.case(('wrong-size', fmt, dh, dw))
            rep.traces += 1
            obs = []
            for attempt in (1, 2):
                try:
                    img = f.image
                    if f.has_jpg and img.flags.writeable:
                        obs.append(f'access {attempt}: the frame has a jpg and hands out a WRITABLE image')
                    r = f.rw
                    if r is f or (r.has_image and np.shares_memory(r.image, img)):
                        obs.append(f'access {attempt}: .rw of the jpg-backed frame is not a new frame with its own pixels')
                except AssertionError:
                    pass
                except Exception as e_:   # noqa
                    obs.append(f'access {attempt}: {type(e_).__name__}: {str(e_)[:100]}')
            if obs:
                rep.violation(f'JpgOnlyOnFrozen: from_jpg with declared size {h + dh}x{w + dw} for a {h}x{w} {fmt} jpg: ' + '; '.join(obs[:2]),
                              {'mode': 'stream', 'fmt': fmt, 'declared': [h + dh, w + dw], 'actual': [h, w]},
                              {'family': 'wrong_size', 'kind': 'jpg_on_writable'})


def replay(ctx):
    _load()
    w = json.load(open(ctx.replay))
    wit = w['witness']
    if wit.get('mode') == 'stream':
        rep = Report(ctx)
        rep.distinct = _Count()
        stream_probe(rep, 120)
        for what, _w, _s in rep.violations:
            print(f'VIOLATION property=C10 replay={ctx.replay}')
            print(f'  {what}')
        if not rep.violations:
            print(f'replay of {ctx.replay}: the stream of jpg-backed frames shows no violation on the current tree')
        return 1 if rep.violations else 0
    acc = Acc()
    world = run_ops(acc, wit['start']['kind'], wit['start']['fmt'], tuple(wit['size']), [tuple(o) for o in wit['ops']],
                    variant=wit.get('variant', 0), source='replay')
    print(f'replay of {ctx.replay}: start {wit["start"]} size {wit["size"]} ops {wit["ops"]}')
    print('frames now: ' + ', '.join(repr(f) for f in world.frames))
    rep = Report(ctx)                      # used only to match known findings; a replay writes no evidence
    rc = 0
    for k in sorted(acc.viol):
        n, text, witness, sig, _wk = acc.viol[k]
        kind = rep.violation(text, witness, sig)
        print(f'  property formula false at step {witness["step"]}: {text}'
              f'{" [matches a known finding]" if kind == "known" else ""}')
        if kind == 'new':
            rc = 1
            print(f'VIOLATION property={ctx.prop} replay={ctx.replay}')
    if not acc.viol:
        print('  no property formula is false on this sequence')
    return rc

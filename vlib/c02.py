"""C02 - each consumer gets every upstream message at most once, in order, unaltered.

Specification: spec/proto/OFP.tla (SEnter stale-id discard, ProcMsg older-id discard, fast-forward, Kill/Restart;
formulas C02_Order, C02_Hidden and - on real executions - C02_Payload).  Byte-exactness of delivered frames (image
bytes, jpg bytes, data) is checked by a content pipeline on the same simulated network.
"""
from . import common, topos, proto, simzmq
from .common import Report
from .protocheck import Engine, replay_witness, run_schedule

PROPS = ('C02_Order', 'C02_Payload', 'C02_Hidden')
INV = ('C02', 'NoCrash')


def scenarios(quick):
    T = topos
    kill = dict(max_faults=2, fault_kinds=['kill'])
    return dict(
        mc=[(T.chain2(maxseq=1), 'Spec', dict(pq=6, rq=2, lq=3), {}),
            (T.chain2(maxseq=2, conn_ticks=2), 'SpecPrompt', {}, dict(kill, victims=['S', 'K'])),
            (T.hidden(maxseq=0), 'SpecZL', {}, {}),
            # a consumer in low-latency mode (sources_low_latency) whose publisher is killed and restarted
            (T.lowlat(T.chain2(maxseq=2, conn_ticks=3), ['K']), 'SpecPrompt', {}, dict(max_faults=1, fault_kinds=['kill'], victims=['S']))] +
           ([] if quick else [
               (T.lowlat(T.chain3(maxseq=2, conn_ticks=3), ['A', 'K']), 'SpecPrompt', {}, dict(max_faults=1, fault_kinds=['kill'], victims=['S'])),
               (T.chain2(maxseq=2), 'Spec', dict(pq=6, rq=2, lq=3), {}),
               (T.hidden(maxseq=1), 'SpecZL', {}, {}),
               (T.chain3(maxseq=1, conn_ticks=2), 'SpecPrompt', {}, dict(max_faults=1, fault_kinds=['kill'], victims=['S', 'A', 'K']))]),
        mut=[(T.chain2(maxseq=2, conn_ticks=2), 'SpecPrompt', ['no_old_recv'], {}, dict(max_faults=1, fault_kinds=['kill'], victims=['S'])),
             (T.lowlat(T.chain2(maxseq=3, conn_ticks=3), ['K']), 'SpecPrompt', ['ll_prev_stale'], {}, dict(max_faults=1, fault_kinds=['kill'], victims=['S']))] +
            ([] if quick else [
                (T.chain3(maxseq=2, conn_ticks=2), 'SpecPrompt', ['no_old_send'], {}, dict(max_faults=1, fault_kinds=['kill'], victims=['A']))]),
        conf=[(T.chain3(maxseq=2, conn_ticks=3), 'SpecPrompt', 10 if quick else 150, 200, dict(max_faults=2, fault_kinds=['kill', 'drop'], victims=['S', 'A', 'K'])),
              (T.chain2(maxseq=2), 'Spec', 8 if quick else 100, 200, {}),
              (T.lowlat(T.chain3(maxseq=2, conn_ticks=3), ['A', 'K']), 'SpecPrompt', 6 if quick else 80, 250, dict(max_faults=1, fault_kinds=['kill'], victims=['S', 'A'])),
              (T.hidden(maxseq=1), 'SpecPrompt', 6 if quick else 60, 150, {}),
              (T.prefix_topics(maxseq=1), 'SpecPrompt', 6 if quick else 60, 200, {}),
              (T.remap_main(maxseq=1), 'SpecPrompt', 4 if quick else 40, 200, {}),
              (T.join_late(maxseq=3), 'SpecPrompt', 6 if quick else 80, 300, dict(max_faults=1, fault_kinds=['stall'], victims=['K'])),
              # blocking applications (timeout = None) with kills and lost messages
              (T.blocking(T.chain3(maxseq=2, conn_ticks=3)), 'SpecPrompt', 6 if quick else 100, 200, dict(max_faults=2, fault_kinds=['kill', 'drop'], victims=['S', 'A', 'K'])),
              # a relay that returns a callable which yields None for the frames it skips, publisher killed and restarted
              (T.chain3_lazyskip(maxseq=3, conn_ticks=3), 'SpecPrompt', 6 if quick else 80, 300, dict(max_faults=1, fault_kinds=['kill'], victims=['S']))],
        rand=[(T.chain3(maxseq=4, conn_ticks=3), 10 if quick else 200, 800, 0.08, 0.03, True),
              (T.tee_rejoin2(maxseq=4, conn_ticks=3, skip=()), 8 if quick else 150, 800, 0.05, 0.0, True),
              (T.hidden(maxseq=3), 6 if quick else 100, 500, 0.1, 0.05, False),
              (T.chain2(maxseq=4), 8 if quick else 150, 500, 0.3, 0.0, False),
              (T.prefix_topics(maxseq=3), 6 if quick else 100, 600, 0.05, 0.0, False),
              (T.remap_main(maxseq=3), 6 if quick else 80, 500, 0.05, 0.0, False),
              (T.join_late(maxseq=8), 8 if quick else 120, 1500, 0.03, 0.0, 'late'),
              # two replicas with the same filter id on one output (told apart by the connection uid), lost messages
              (T.same_id(T.tee(maxseq=4), ['A', 'B'], 'R'), 6 if quick else 100, 700, 0.05, 0.03, False)],
    )


def lazy_none_kills(eng, rep, n):
    """a relay whose deferred result turns out to be None (a callable that yields None) behind a slow producer: the producer is
    killed (what is in flight is lost) right after the relay has dealt with such a frame, and started again"""
    from .proto import SimPipeline
    from .protocheck import run_schedule, finish_prompt
    topo = topos.chain3_lazyskip(maxseq=12, conn_ticks=3)
    topo.filters['A']['beh']['skip'] = [1, 3, 5, 7, 9]
    topo.filters['S']['beh']['slow'] = True
    for k in range(n):
        rng = common.rng(eng.ctx, f'lazy-none-kill/{k}')
        pipe = SimPipeline(topo, warn=k % 2 == 0)
        try:
            pipe.start()
            want = [1, 3, 5, 7][k % 4]
            for _ in range(4000):
                d = pipe.delivered['A']
                if d and d[-1]['id'] is not None and d[-1]['id'] >= want and d[-1]['id'] in topo.filters['A']['beh']['skip']:
                    break
                run_schedule(pipe, rng, 1, p_timeout=0.05, quiet=10 ** 9)
            run_schedule(pipe, rng, 2 + (k // 4) * 3 % 14, p_timeout=0.0, quiet=10 ** 9)     # the relay goes back to recv()
            pipe.kill('S', False)
            pipe.restart('S')
            finish_prompt(pipe, rng, 1500)
            eng.judge_pipe(topo, pipe, {'kind': 'trace', 'topo': topo.name, 'topo_def': topo.to_dict(), 'seed': eng.ctx.seed,
                                        'origin': f'producer killed right after the relay dealt with skipped id {want} (lazy None), restarted ({k})',
                                        'pipekw': {'warn': k % 2 == 0}, 'trace': [list(t_) for t_ in pipe.world.trace]})
        finally:
            pipe.close()
    print(f'  [faults] {topo.name}: {n} kills after a lazy None', flush=True)


def kill_faults(rng, pipe):
    """kill a random filter at a random step, restart it after a random delay (0, short, longer than the timeout)"""
    names = pipe.topo.names
    out = []
    t = rng.randrange(20, 300)
    for _ in range(rng.choice((1, 1, 2))):
        f = rng.choice(names)
        keep = rng.random() < 0.5
        delay = rng.choice((0, 5, 40, 150))
        out.append((t, lambda p, f=f, keep=keep: p.kill(f, keep) if f in p.world.tasks else None))
        out.append((t + delay, lambda p, f=f: p.restart(f) if f not in p.world.tasks else None))
        t += delay + rng.randrange(30, 200)
    return out


def late_join(rng, pipe):
    """K is held back from the very start while the rest of the pipeline runs ahead, and joins later"""
    at = rng.randrange(80, 400)
    return [(0, lambda p: p.stall('K')), (at, lambda p: p.resume('K'))]


# ---- content pipeline: byte-exact delivery for every kind of frame and subscription form -------------------------------

def content_check(eng, rep, ctx, n):
    import numpy as np
    Z = proto.load_real()
    from openfilter.filter_runtime.mq import MQ
    from openfilter.filter_runtime.frame import Frame
    rng = common.rng(ctx, 'content')
    specs = [('tcp://127.0.0.1:6000', None), ('tcp://127.0.0.1:6000', [('main', 'main')]),
             ('tcp://127.0.0.1:6000', [('b', 'bee'), ('main', 'm2')]), ('tcp://127.0.0.1:6000', [('*', '*')]),
             ('tcp://127.0.0.1:6000?', None), ('tcp://127.0.0.1:6000', [('_hid', '_hid'), ('main', 'main')])]
    for k in range(n):
        w = simzmq.World(local_clocks=True)
        simzmq.Context.world = w
        Z.ZMQContext.context = (None, 0)
        Z.time_ns, Z.sleep = w.time_ns, w.sleep
        Z.ZMQ_CONN_TIMEOUT, Z.ZMQ_PUB_HWM, Z.ZMQ_PUSH_HWM = 10 ** 9, 1000, 100
        spec = specs[k % len(specs)]
        outs_jpg = (None, True, False)[k % 3]
        sent, got = [], []
        nfr = 4

        def mkframes(i):
            h, wd = rng.choice([(1, 1), (3, 5), (16, 9), (7, 2)])
            img = np.frombuffer(bytes(rng.randrange(256) for _ in range(h * wd * 3)), np.uint8).reshape(h, wd, 3).copy()
            gray = img[:, :, 0].copy()
            kinds = {
                'main': rng.choice([Frame(img, {'i': i, 'u': 'ünï'}, 'BGR'), Frame(gray, {'i': i}, 'GRAY'),
                                    Frame({'i': i, 'nested': [1, None, {'x': 2.5}]}), Frame(Frame(img, {'i': i}, 'RGB').jpg, {'i': i}, 'RGB') if False else Frame(img, {}, 'RGB')]),
                'b': rng.choice([Frame({'i': i}), Frame(img[::-1].copy(), {'i': i, 'b': True}, 'RGB'), Frame({})]),
                '_hid': Frame({'i': i, 'hidden': True}),
            }
            return kinds

        reuse = k % 4 == 3            # a producer that reuses ONE large pixel buffer for every frame (capture buffer / canvas)
        canvas = np.zeros((150, 160, 3), np.uint8)      # 72 000 bytes: above pyzmq's zero-copy threshold

        def origin():
            mq = MQ(None, 'tcp://*:6000', 'S', outs_metrics=False, outs_filter=False, outs_jpg=False if reuse else outs_jpg)
            for i in range(nfr):
                fr = mkframes(i)
                if reuse:
                    canvas[:] = (i * 37 + 11) % 256
                    canvas[i, :, 0] = 255 - i
                    fr['main'] = Frame(canvas, {'i': i, 'reuse': True}, 'BGR')
                    # what the consumer must get is the picture as it is NOW (the frame object itself will change)
                    snap = Frame(canvas.copy(), {'i': i, 'reuse': True}, 'BGR')
                    sent.append(dict(fr, main=snap))
                    while not mq.send(fr, 100):
                        pass
                    continue
                sent.append(fr)
                while not mq.send(fr, 100):
                    pass
            w.cur.park(('idle',))

        def sink():
            mq = MQ([spec], None, 'K')
            while True:
                while (fr := mq.recv(100)) is None:
                    pass
                got.append((mq.send_state.msg_id, fr))
        w.spawn('S', origin)
        w.spawn('K', sink)

        class P:     # minimal pipeline facade for run_schedule
            world = w
            delivered = {'K': got}
            oseq = {'S': 0}
            stalled = set()

            def enabled(self):
                return w.enabled()

            def do(self, a):
                w.do(a)
        run_schedule(P(), rng, 1500, p_timeout=0.05, quiet=60)
        w.record_events = False
        w.kill_all()
        rep.case(('content', k))
        rep.traces += 1
        topics = spec[1]
        last = -1
        for mid, fr in got:
            wit = {'spec': str(spec), 'outs_jpg': outs_jpg, 'id': mid, 'topics': sorted(fr)}
            if mid <= last and not spec[0].endswith('?'):
                eng.rep.violation(f'C02_Order: content sink was handed id {mid} after {last}', wit, {'formula': 'C02_Order', 'topology': 'content'})
            last = mid
            if not (0 <= mid < len(sent)):
                eng.rep.violation(f'C02_Payload: content sink was handed unknown id {mid}', wit, {'formula': 'C02_Payload', 'topology': 'content'})
                continue
            src = sent[mid]
            if topics is None:
                want = {t: t for t in src if not t.startswith('_')}
            elif topics == [('*', '*')]:
                want = {t: t for t in src}
            else:
                want = {a: b for a, b in topics if a in src}
            if set(fr) != set(want.values()):
                eng.rep.violation(f'C02_Hidden: subscription {topics} delivered topics {sorted(fr)}, published {sorted(src)}', wit,
                                  {'formula': 'C02_Hidden', 'topology': 'content'})
                continue
            for a, b in want.items():
                x, y = src[a], fr[b]
                ok = (x.data or {}) == (y.data or {}) and x.has_image == y.has_image
                if ok and x.has_image:
                    from openfilter.filter_runtime import mq as Mm
                    send_jpg = False if reuse else (Mm.OUTPUTS_JPG if outs_jpg is None else outs_jpg)
                    send_jpg = x.has_jpg if send_jpg is None else send_jpg
                    ok = (x.height, x.width, x.format) == (y.height, y.width, y.format)
                    if ok and not send_jpg:
                        ok = bytes(memoryview(np.ascontiguousarray(x.image))) == bytes(memoryview(np.ascontiguousarray(y.image)))
                    elif ok:
                        ok = bytes(x.jpg) == bytes(y.jpg)
                if not ok:
                    eng.rep.violation(f'C02_Payload: topic {a!r}->{b!r} of id {mid} arrived altered: sent {x} {x.data}, got {y} {y.data}',
                                      wit, {'formula': 'C02_Payload', 'topology': 'content'})


def run(ctx):
    rep = Report(ctx)
    rep.rule = ('case = one execution of the real pipeline classes on the simulated network under one schedule (TLC '
                'counterexample of a mutated design, TLC -simulate behaviour incl. kill/restart/drop, seeded random schedule '
                'with kill/restart faults, content pipeline run); non-trivial = at least one frame set handed to a process()')
    rep.assumptions = ['the real ZeroMQ library is replaced by vlib/simzmq.py', 'restarts: at most 2 per run; the origin keeps counting frames across its restarts']
    eng = Engine(ctx, rep, PROPS)
    sc = scenarios(ctx.quick)
    for topo, spec, bounds, kw in sc['mc']:
        kw = dict(kw)
        kw.setdefault('victims', topo.names)
        eng.model_check(topo, spec, invariants=INV, bounds=bounds, timeout=900 if ctx.quick else 3000, **kw)
    for topo, spec, muts, bounds, kw in sc['mut']:
        kw = dict(kw)
        sim = kw.pop('sim', None)
        eng.mutation_schedules(topo, spec, muts, invariant='C02', bounds=bounds, timeout=120 if ctx.quick else 900, sim=sim, **kw)
    # the stored rejoin schedule (a relay that forgets an adopted id hands out frames of one id under another id)
    eng.stored_schedules('C01_relay')
    for topo, spec, num, depth, kw in sc['conf']:
        eng.conformance(topo, spec, num, depth, **kw)
    # every transition of the 2-filter model replayed on the real code (prompt; thorough: free interleaving and kill/restart)
    eng.cover(topos.chain2(maxseq=1), 'SpecPrompt')
    if not ctx.quick:
        eng.cover(topos.chain2(maxseq=1), 'Spec', bounds=dict(pq=5, rq=2, lq=2))
        eng.cover(topos.chain2(maxseq=1, conn_ticks=2), 'SpecPrompt', max_faults=1, fault_kinds=['kill'], victims=['S', 'K'], max_paths=1500)
    for topo, n, steps, pt, pd, faults in sc['rand']:
        eng.random_runs(topo, n, steps, p_timeout=pt, p_drop=pd,
                        faults=late_join if faults == 'late' else kill_faults if faults else None, tag='rand',
                        validate=3 if ctx.quick else 25)
    # a join with sources_timeout whose one source falls silent: what is delivered under an id was published under that id
    def silence(rng, pipe):
        a = rng.randrange(20, 120)
        return [(a, lambda p: p.stall('Y')), (a + rng.randrange(200, 500), lambda p: p.resume('Y'))]
    eng.random_runs(topos.join_timeout(maxseq=12, ticks=3), 4 if ctx.quick else 60, 2500, p_timeout=0.04, faults=silence, tag='silent-source')
    lazy_none_kills(eng, rep, 16 if ctx.quick else 160)
    content_check(eng, rep, ctx, 18 if ctx.quick else 300)
    return rep.finish()


def replay(ctx):
    return replay_witness(ctx, PROPS)

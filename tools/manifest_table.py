HOOKS = {
    'guard': 'OPENFILTER_VERIF',
    'enable': 'no source hooks are needed: checks import /repo\'s working tree and substitute the module globals '
              '(zmq, time_ns, sleep, threading, open/os) of the modules under test from the harness',
    'baseline_off_cmd': '/verif/tools/baseline_off.sh',
    'source_commits': [],
    'add_only': True,
}
ENGINES = [
    {'name': 'tlc+simzmq', 'path': '/verif/vlib', 'serves_properties': ['C01', 'C02', 'C03', 'C04', 'C05', 'C06', 'C07'],
     'kind_free_text': 'explicit TLA+ specification of the request/publish protocol (spec/proto/OFP.tla: one action per '
                       'poll()-to-poll() block of the code) checked by TLC (exhaustive for small constants, -simulate beyond, '
                       'fairness for liveness); bound to the unmodified Filter/MQ/ZMQSender/ZMQReceiver classes running on an '
                       'in-memory deterministic zmq stand-in with virtual time: spec->code replay with state projection '
                       'comparison, mutation-directed schedules, fault enumeration, observers on real executions'},
    {'name': 'tlc+replay', 'path': '/verif/vlib', 'serves_properties': ['C08', 'C10', 'C13', 'C14', 'C18'],
     'kind_free_text': 'TLA+ state-machine specification checked exhaustively by TLC within bounds; TLC-generated '
                       'behaviours (transition cover, -simulate) replayed step by step into the real class with the '
                       'abstract state compared after each step; property monitors on the real objects'},
    {'name': 'tlc+vectors', 'path': '/verif/vlib', 'serves_properties': ['C09', 'C11', 'C12', 'C15', 'C16', 'C17'],
     'kind_free_text': 'TLA+ reference specification of a function/grammar; TLC checks the laws on every case of a '
                       'bounded domain (one state per case) and emits the cases as vectors that are executed against '
                       'the real code'},
]
NOTES = ('All checks: ./check <id> --tier quick|thorough; VERIF_SEED, VERIF_TIER, VERIF_REPO honoured. '
         'Specifications under /verif/spec, known findings in /verif/known_findings.json, design in DESIGN.md.')
NOT_YET = {}
CHECKS = {
    'C08': dict(
        engine='tlc+replay', technique='TLA+ lifecycle / exit-propagation specs (Lifecycle.tla, ExitProp.tla) checked exhaustively by TLC; every model behaviour replayed on real Filter.run on the simulated network; property formulas on observations',
        design_ref='DESIGN.md 2.2, 3.1, 5/C08',
        text='TLC proves the single-filter lifecycle invariants on every behaviour of Lifecycle.tla (fault ok/raise/exit() at constructor, '
             'init before/during/after MQ creation, setup, k-th recv/process/send, shutdown, fini; stop event, exit message of either kind '
             'from either side, exit_after; 16 policy pairs x 4 exit_after forms) and who-terminates = fixpoint of propagate/obey on '
             'ExitProp.tla (chain/tee/rejoin x exiting filter x kind x 16^3 policies x all delivery orders), with a counterexample for each '
             'of 14 named deviations. All behaviours of the model, all 288 policy-pair cases under several schedules, sampled per-filter '
             'policy assignments and timed exit_after runs are executed on real Filter.run on the simulated network; the formulas are '
             'evaluated on call log, return/raise, open sockets, stop_evt, wire messages, neighbours\' terminal states and virtual time.',
        note='one filter under test with two helper neighbours / three filters; simulated ZeroMQ, virtual time, cooperative scheduling; '
             'Filter.Runner, loop_exc=False and unconnected links are out; non-pair (per-filter mixed) policies are explored and reported '
             'as a finding, not a verdict; one open known finding (MQ constructor failing half way leaks sockets)'),
    'C18': dict(
        engine='tlc+replay', technique='TLA+ spec of the lineage emitter and heartbeat thread (Lineage.tla) checked by TLC; every behaviour (lifecycle path x heartbeat interleaving) replayed on real Filter.run + OpenFilterLineage with a cooperative heartbeat thread',
        design_ref='DESIGN.md 2.2, 3.1, 5/C18',
        text='TLC proves C18_Wellformed (START RUNNING* one terminal event; kind by ending; terminal out before run() returns) on every '
             'lifecycle behaviour x heartbeat interleaving and exhibits the four deviations the code had; every behaviour of the model is '
             'replayed step by step on real Filter.run + OpenFilterLineage with a capturing client and a cooperative heartbeat thread (every '
             'emitter call, stop-event set() and Thread.start is a yield point), plus free-running runs at 0.3-3.2 heartbeat intervals and '
             'random interleavings; the event sequence and run ids are judged by the property formula.',
        note='one emitter per run; for the stop-event and obeyed-error endings either terminal kind is accepted; a constructor failure yields '
             'an empty history; emissions are atomic'),
    'C04': dict(
        engine='tlc+simzmq', technique='TLA+ protocol spec (OFP.tla) model-checked by TLC; TLC counterexamples of design mutations and -simulate behaviours replayed into the real Filter/MQ/ZMQ classes on a simulated network with state comparison; property observers on real executions',
        design_ref='DESIGN.md 2.1, 3, 4, 5/C04',
        text="TLC proves, with Stall(consumer) enabled at every reachable state and connections that never time out, that a publisher publishes at most 5 (sole consumer) / 6 (consumer behind a relay) further frames towards a stalled synchronized consumer (C04_Tight5/6, far inside the property's single-digit bound C04_Bounded) under zero-latency and prompt scheduling; the mutated design that does not clear `requested` on publish yields a TLC schedule that is replayed on the real code; -simulate behaviours with stalls are replayed with state comparison; on the real pipeline a consumer is stalled at seeded random steps in four topology positions (sole, one of two, behind a relay, the relay itself, slow relay) and the run continues for 1500-2500 steps: the number of distinct frames its direct publisher publishes on that output after the stall must stay <= 9 (also with a publisher bound to two addresses, an ephemeral source listed first, a slow producer, a '?' listener on the stalled worker's endpoint of a balanced splitter, and a publisher that is an application using the blocking send()). Blocking applications (OFP!Blocking: recv()/send() with timeout=None, time passing in poll(None) as SBlockTick) with connection time-outs: TLC proves C04_NoEarlyEvict (a client is dropped as timed out only after ZMQ_CONN_TIMEOUT of silence, however long one send() call lasts); the TLC counterexamples of the design mutations stale_t (one clock read per send() call) and bal_eph_reenables (a listener after a worker re-enables a balanced endpoint) are replayed on the real sender, whose time-out evictions are observed against its own clock.",
        note='the real ZeroMQ library is replaced by vlib/simzmq.py (FIFO per connection, atomic multipart, PUB drops at the high-water mark, PUSH pipe from connect(), slow joiner); exhaustive model checking for small constants (2-5 filters, 2-9 frames), larger pipelines sampled; Filter.Runner / multi-process supervision not modelled (filters run as cooperative tasks of one deterministic scheduler)'),
    'C05': dict(
        engine='tlc+simzmq', technique='TLA+ protocol spec (OFP.tla) model-checked by TLC; TLC counterexamples of design mutations and -simulate behaviours replayed into the real Filter/MQ/ZMQ classes on a simulated network with state comparison; property observers on real executions',
        design_ref='DESIGN.md 2.1, 3, 4, 5/C05',
        text="TLC proves on OFP.tla, for a publisher with synchronized, ? and ?? consumers and for an ephemeral branch rejoined as an ephemeral source, that ephemeral sets are complete for their subscription and ordered (C05_EphComplete), that the publish guard never waits for an ephemeral client (C05_GuardSync), that a ?? connection never carries a request (TypeOK), and that the synchronized sinks keep C01/C02 (and C03 with required outputs) whatever the ephemeral consumers do (slow, stalled, killed); -simulate behaviours incl. stall/kill of the ephemeral consumers are replayed with state comparison; random schedules with observers; a differential on the real code under the global virtual clock: the same pipeline with and without its ephemeral consumers (running, stalled forever, killed) - the publisher's publish times must not be later and every synchronized sink's input sequence must be identical (incl. a '?' listener that attaches late to the endpoint of a slow worker of a balanced splitter whose other worker is slower than the listener). KNOWN-FINDING (open, not suppressed for other topologies): a '?' listener registered on a balanced endpoint before its worker.",
        note='the real ZeroMQ library is replaced by vlib/simzmq.py (FIFO per connection, atomic multipart, PUB drops at the high-water mark, PUSH pipe from connect(), slow joiner); exhaustive model checking for small constants (2-5 filters, 2-9 frames), larger pipelines sampled; Filter.Runner / multi-process supervision not modelled (filters run as cooperative tasks of one deterministic scheduler)'),
    'C07': dict(
        engine='tlc+simzmq', technique='TLA+ protocol spec (OFP.tla) model-checked by TLC; TLC counterexamples of design mutations and -simulate behaviours replayed into the real Filter/MQ/ZMQ classes on a simulated network with state comparison; property observers on real executions',
        design_ref='DESIGN.md 2.1, 3, 4, 5/C07',
        text='TLC proves C07_OneBranch (every publish of a balanced publisher goes to exactly one output), C07_Rejoin (ids strictly increasing, no frame twice at a balanced-sources consumer) and C01 at the rejoin for splitter -> 2 workers -> rejoin with 2-4 frames under zero-latency and prompt scheduling, with a ?? watcher on a branch; mutated designs (publish on all outputs, prefetch on the first hop) yield schedules replayed on the real code; -simulate behaviours with equal and unequal worker speeds replayed with state comparison; random schedules on 2- and 3-branch pipelines with a slow worker.',
        note='the real ZeroMQ library is replaced by vlib/simzmq.py (FIFO per connection, atomic multipart, PUB drops at the high-water mark, PUSH pipe from connect(), slow joiner); exhaustive model checking for small constants (2-5 filters, 2-9 frames), larger pipelines sampled; Filter.Runner / multi-process supervision not modelled (filters run as cooperative tasks of one deterministic scheduler)'),
    'C13': dict(
        engine='tlc+replay', technique='TLA+ state-machine spec (RollLog.tla) checked by TLC; transition-cover replay, -simulate replay and TLC trace validation (TraceRollLog.tla) against the real RollLog class',
        design_ref='DESIGN.md 2.3, 3, 5/C13',
        text='TLC proves the four C13 action properties (ExactlyOnceInOrder, Budget, NewestKept, NoOverwrite) of RollLog.tla with '
             'Defects={} on bounded configurations (<=4/5 writes, record sizes, file_size, total_size, <=2 readers, a clock that may '
             'stand still or step back, external deletion) and exhibits a counterexample for each defect switch, which is replayed on '
             'the real RollLog; every model transition of the cover configurations (seeded sample in quick) and -simulate behaviours '
             'are replayed on real objects in all four modes with full-state comparison after every step; random histories are judged '
             'by a monitor proven equal to the spec\'s step formulas and a sample is validated by TLC against TraceRollLog.tla.',
        note='cells of 8/9/13 bytes; writes and reads atomic (flush=True); files smaller than the read buffer; the log directory '
             'is never removed; a restarted writer is not handed a timestamp <= names of newer files that were deleted'),
    'C14': dict(
        engine='tlc+replay', technique='TLA+ refinement of write_head into file-system operations with Crash anywhere (HeadFile.tla) checked by TLC; crash-point fault enumeration and TLC trace validation against the real class',
        design_ref='DESIGN.md 2.3, 3, 5/C14',
        text='TLC proves the C14 invariants and action properties of HeadFile.tla (HeadNeverCorrupt, RestartsFromSavedPos, NoSkip, '
             'BoundedReplay, SavedNotAhead) with Crash enabled between any two file-system operations of a save and between any two '
             'reader operations; every transition is replayed with the crash injected at the matching operation of the real '
             'write_head (exception from wrapped open/write/close/rename, unflushed residue none/part/all); crash points are '
             'enumerated over up to 3 stop/restart cycles on reference histories; a sample of recorded executions is validated by TLC '
             'against TraceHeadFile.tla.',
        note='crash = process death, not power loss; deletion only while the reader is down; large retention budget; monotone timestamps'),
    'C01': dict(
        engine='tlc+simzmq', technique='TLA+ protocol spec (OFP.tla) model-checked by TLC; TLC counterexamples of design mutations and -simulate behaviours replayed into the real Filter/MQ/ZMQ classes on a simulated network with state comparison; property observers on real executions',
        design_ref='DESIGN.md 2.1, 3, 4, 5/C01',
        text='TLC proves C01_SameId / C01_ExactTopics / C01_SameOrigin (evaluated at every delivery) on OFP.tla for tee-rejoin (skipping and slow branches), independent join and chain configurations under zero-latency, prompt and free scheduling; for each design mutation (no sibling invalidation on a newer id - two variants, slice amnesia of the adopted id, partial sets accepted, id not carried through MQ) TLC produces the shortest violating behaviour, which is replayed as a schedule on the real classes; -simulate behaviours are replayed step by step with the projection of the real objects compared with the model state after every step; seeded random schedules (timeouts anywhere, lost publishes) run on the real pipeline. Verdicts come only from the observer formulas evaluated on what real process() calls were handed versus what was really published.',
        note='the real ZeroMQ library is replaced by vlib/simzmq.py (FIFO per connection, atomic multipart, PUB drops at the high-water mark, PUSH pipe from connect(), slow joiner); exhaustive model checking for small constants (2-5 filters, 2-4 frames), larger pipelines sampled; Filter.Runner / multi-process supervision not modelled (filters run as cooperative tasks of one deterministic scheduler)'),
    'C02': dict(
        engine='tlc+simzmq', technique='TLA+ protocol spec (OFP.tla) model-checked by TLC; TLC counterexamples of design mutations and -simulate behaviours replayed into the real Filter/MQ/ZMQ classes on a simulated network with state comparison; property observers on real executions',
        design_ref='DESIGN.md 2.1, 3, 4, 5/C02',
        text='TLC proves C02_Order / C02_Hidden on OFP.tla under free interleaving (duplicated and stale requests), with kill/restart of publisher and consumer (in-flight messages kept or cut, client expiry) and for every subscription form incl. hidden topics; mutation-directed schedules (older-id discard removed) and -simulate behaviours with kill/drop faults are replayed into the real classes with state comparison; random schedules with kill/restart faults; a content pipeline checks byte-exact delivery (raw image bytes, jpg bytes, data) for every subscription spec and outputs_jpg setting.',
        note='the real ZeroMQ library is replaced by vlib/simzmq.py (FIFO per connection, atomic multipart, PUB drops at the high-water mark, PUSH pipe from connect(), slow joiner); exhaustive model checking for small constants (2-5 filters, 2-4 frames), larger pipelines sampled; Filter.Runner / multi-process supervision not modelled (filters run as cooperative tasks of one deterministic scheduler)'),
    'C03': dict(
        engine='tlc+simzmq', technique='TLA+ protocol spec (OFP.tla) model-checked by TLC; TLC counterexamples of design mutations and -simulate behaviours replayed into the real Filter/MQ/ZMQ classes on a simulated network with state comparison; property observers on real executions',
        design_ref='DESIGN.md 2.1, 3, 4, 5/C03',
        text="TLC proves C03_Prefix (each filter's input sequence is a prefix of the functional composition InById/OutById of the upstream process() functions, paired by message id) under prompt / zero-latency scheduling with handshake and required outputs, and C03_Complete (liveness, strong fairness per filter) - for chain, tee, tee-rejoin, join, skipping / slow / lazy (callable) filters and for applications that drive MQ with the blocking calls (timeout=None) as publisher, relay or rejoin; mutation schedules (handshake ineffective -> first frame lost, required outputs ignored); conformance replay; prompt schedules under the global virtual clock on real Filter subclasses with the process() input logs compared with the composition and the callable's evaluation step compared with its publish step.",
        note='the real ZeroMQ library is replaced by vlib/simzmq.py (FIFO per connection, atomic multipart, PUB drops at the high-water mark, PUSH pipe from connect(), slow joiner); exhaustive model checking for small constants (2-5 filters, 2-4 frames), larger pipelines sampled; Filter.Runner / multi-process supervision not modelled (filters run as cooperative tasks of one deterministic scheduler)'),
    'C06': dict(
        engine='tlc+simzmq', technique='TLA+ protocol spec (OFP.tla) model-checked by TLC; TLC counterexamples of design mutations and -simulate behaviours replayed into the real Filter/MQ/ZMQ classes on a simulated network with state comparison; property observers on real executions',
        design_ref='DESIGN.md 2.1, 3, 4, 5/C06',
        text='TLC proves C06_Heals (<>[] every origin has handed off all frames and everything is alive) under FairFault (strong fairness per filter, a killed filter is eventually restarted, client expiry through ConnTicks) for kill and stall of publisher or consumer, and the ordering invariant with kill/restart; -simulate behaviours with kill/stall faults are replayed with state comparison; fault enumeration on the real code under the global virtual clock: (kill step of a deterministic reference run) x (victim) x (restart delay 0 / shorter / longer than the connection timeout) x (in-flight kept/cut), stall/resume, permanent death or silence of a non-required consumer, missing required output - every live synchronized sink must be handed a new frame within connection timeout + 5 poll intervals after the restart, and C02_Order must hold over the whole run.',
        note='the real ZeroMQ library is replaced by vlib/simzmq.py (FIFO per connection, atomic multipart, PUB drops at the high-water mark, PUSH pipe from connect(), slow joiner); exhaustive model checking for small constants (2-5 filters, 2-4 frames), larger pipelines sampled; Filter.Runner / multi-process supervision not modelled (filters run as cooperative tasks of one deterministic scheduler)'),
    'C11': dict(
        engine='tlc+vectors', technique='TLA+ reference spec of the configuration text grammar and per-filter normalisers (ConfigGrammar.tla) checked by TLC; all cases replayed into the real parse_topics/parse_options and the ten real normalize_config',
        design_ref='DESIGN.md 2.5, 5/C11',
        text='TLC checks for every case in the bounded domains (a) Parse(Render(x)) = x for topic-mapping lists and option '
             'lists, (b) text == list == structured and idempotence of the reference normaliser for 1-4 entries of '
             'Filter/Util/Recorder/VideoIn/VideoOut/ImageIn/ImageOut, (c) the same for the Webvis/REST/MQTTOut address '
             'grammars; a defect-on run must exhibit the whitespace-before-= counterexample. Every case is executed against '
             'the real code and the property\'s own formulas (idempotence, text == structured, parse inverse of render) are '
             'evaluated on the real results.',
        note='state space = set of cases; tokens are words from a fixed vocabulary plus separators; whitespace = one or two '
             'blanks; validity of inputs derived from the docstrings with ambiguity laws; config cases vary one entry among '
             'up to three fixed fillers; MQTTOut compared modulo the random client id'),
    'C09': dict(
        engine='tlc+vectors', technique='TLA+ reference spec (Codec.tla) checked by TLC; all vectors concretised and replayed into the real codec',
        design_ref='DESIGN.md 2.5, 5/C09',
        text='TLC proves the twelve round-trip laws of Codec.tla (same topics and order, no decode error, equal data, image '
             'presence, declared height/width/format, raw pixel identity, existing jpg kept byte for byte, fresh jpg within '
             'JpegClose, decode to declared shape, sender frame unchanged, envelope and part count, mode) on every frame set '
             'of up to 4 topics over 6 frame states x 3 formats x data empty/non-empty x normal/hidden names x outs_jpg in '
             '{None, True, False}, and shows each law rejects a hypothetical deviation; all emitted cases are executed on the '
             'real MQ.frames2topicmsgs / topicmsgs2frames directly, through zeromq.py\'s message framing and through a real '
             'zmq inproc socket, at 11-14 sizes x 8 memory layouts x 4 blob types with nested-JSON data, and the property\'s '
             'own formula is evaluated on the result.',
        note='state space = set of cases; JPEG numerics are an uninterpreted predicate in the spec, evaluated by the harness '
             'as MAE <= 2 x OpenCV\'s own round-trip error + 4; data = JSON dicts with string keys, finite floats, '
             'well-formed Unicode'),
    'C12': dict(
        engine='tlc+vectors', technique='TLA+ reference spec (CliWiring.tla) checked by TLC; all cases replayed into the real parse_filters / cmd_run',
        design_ref='DESIGN.md 2.5, 5/C12',
        text='TLC builds every command line of 1-3 (quick) / 1-4 (thorough) filters over five facet alphabets (chain, ids, '
             'refs, ports, lists) and samples 2-6-filter command lines with -simulate; on each it evaluates the reference '
             'ParseFilters (written phase by phase like cli/common.py) and checks UniqueIds, EverySourceBound, PortsDisjoint, '
             'PassThrough on the intended design and on the code as it stands; every case is emitted as a vector, rendered '
             'to a real argv with built-in filters, executed against the real parse_filters (1 in 5 through cmd_run), '
             'compared with the reference wiring (drift) and the four laws are evaluated on the real result (violation).',
        note='state space = set of command lines; exhaustive within the facet alphabets, 5-6 filters sampled; user-given '
             'ports/ipc names pairwise disjoint; --outputs_metrics, unknown ids, mixed mq/non-mq output lists outside the '
             'domain; an empty --sources=/--outputs= being ignored is reported as drift only (intent documented only in a '
             'code comment)'),
    'C10': dict(
        engine='tlc+replay', technique='TLA+ state-machine spec (heap + frames) checked by TLC; transition-cover and simulated behaviours replayed into the real Frame class; model-free property monitors',
        design_ref='DESIGN.md 2.4, 3.2, 5/C10',
        text='TLC proves Fresh/NoAlias/RoStaysRo/JpgOnlyOnFrozen/JpgFresh on FrameViews.tla (intended design) for every '
             'sequence of <=3 (quick) / <=4 (thorough) operations from 12 start frames, and exhibits the counterexample for '
             'each named defect. Every transition of the state graph is replayed on real Frame objects (3 sizes) and the '
             'projected real world is compared with the model state; -simulate behaviours of 12 operations are compared after '
             'every step; seeded random walks of 12-16 operations run on the real objects; the property formulas are '
             'evaluated on the real objects after every step by a model-free monitor (only it produces violations).',
        note='exhaustive to length 3/4, longer sequences sampled; an in-place edit is a whole-array +37; jpg correspondence '
             'is exact (cv2 determinism trusted); GRAY judged against cv2 luminance; frames without image excluded'),
    'C17': dict(
        engine='tlc+vectors', technique='TLA+ reference spec (Xform.tla) checked by TLC; all cases replayed into the real Util.execute_xforms and VideoReader.thread_reader',
        design_ref='DESIGN.md 2.5, 5/C17',
        text='TLC evaluates the 13 laws of C17 (no-fail, resize exact, video fit-inside, max/min bounds, never '
             'enlarge/shrink, aspect within one pixel, independent bounds for +, exact permutations and their algebra, '
             'format keeps size, box inside rectangle) on the exact-integer reference for every case of the bounded domain '
             'plus harness-supplied large-size boundary families (to 4000 px) and sampled 3-chains; with the named '
             'deviations switched on TLC exhibits the zero-dimension and video-resize counterexamples. Every case is '
             'executed against the real code on coordinate-encoded frames (GRAY/BGR/RGB, read-only and writable, all '
             'interpolation codes); the property formulas are evaluated on every real step and size/format/pixels are '
             'compared with the reference.',
        note='state space = set of cases; bounds >= 1; interpolated pixel values and GRAY box luminance not judged; video '
             'frames injected (vidgear stubbed), a sample cross-checked through the reader thread; declared deviation: '
             'float truncation may leave the limiting side one pixel short (falsifies no law)'),
    'C15': dict(
        engine='tlc+vectors', technique='TLA+ information-flow spec (Redact.tla) checked by TLC; every structural case replayed into the real filters with capturing logger, lineage client and MQ',
        design_ref='DESIGN.md 2.5, 5/C15',
        text='TLC proves NoCleartextAtSink of Redact.tla (information-flow model: configuration path -> normalisation -> '
             'sinks, Mask nodes where the code masks) for the intended design on every case (10 filter classes x top '
             'container x key x nestings x single/comma x fault mode x scheme class x character class); for each named '
             'deviation TLC exhibits the leaking case, which is replayed on the code. One vector per structural case is '
             'instantiated with unique secrets and executed on the real filter classes: root-logger records, lineage events '
             'and frames handed downstream are searched for the password, and the host must stay readable.',
        note='state space = set of cases; masking regexes are uninterpreted in TLA+ and exercised per scheme/character '
             'class; vidgear and MQ replaced by stand-ins; six built-in filters driven through __init__/init/fini only'),
    'C16': dict(
        engine='tlc+vectors', technique='TLA+ reference spec (Allowlist.tla) checked by TLC; all cases replayed into the real exporter',
        design_ref='DESIGN.md 2.5, 5/C16',
        text='TLC evaluates the allow-list laws (lock-down, only-listed, union, monotone, histogram shape) on every '
             '(allow-list, allow-list, metric set) case of the bounded domain and emits every (allow-list, metric set) '
             'vector; each vector is executed against the real OTelLineageExporter fed by a real OpenTelemetry '
             'MeterProvider through all allow-list sources (argument, OF_SAFE_METRICS, YAML, default) and through '
             'OpenTelemetryClient\'s own wiring; the exported names must be a subset of the reference.',
        note='state space = set of cases, not interleavings; names rendered from a 2-3 letter alphabet, patterns with '
             "'*' only; OpenTelemetry SDK aggregation trusted"),
}

# what later rounds added to each check (appended to the level texts above)
ADDENDA = {
    'C01': " Later additions: a join with sources_timeout (OFP!SrcTimeout: process({}) after the time-out, ids advanced by sends without input; the switch stale_kept = the code before repair 2b5b6e3 gives a TLC counterexample that is replayed, plus random silent-source runs), a publisher killed inside one publish (1..m-1 of the m messages of a frame set delivered), rejoin points that are blocking applications (timeout=None).",
    'C02': " Later additions: consumers in low-latency mode with a restarted publisher (design mutation ll_prev_stale), the stored relay-rejoin schedule judged by the id a frame was published under, two replicas with one filter id, blocking applications with kills and lost messages.",
    'C03': " Later additions: a relay that returns None and then a set without the sink's explicitly subscribed topics, a required consumer whose process does not exist at first, an independent join with a slower branch under realistic total buffering (SNDHWM + RCVHWM): 80 frames must arrive complete; the same with 700 frames loses frames on the unchanged tree (KNOWN-FINDING C03-join-fast-source-runs-ahead, open).",
    'C04': " Later additions: blocking applications (timeout=None) as publishers, C04_NoEarlyEvict, replicas with one filter id, required outputs in the stall scenarios; the reachability goal X_NoLiveEviction (a stalled consumer evicted on a sibling's request and registered anew) replayed with state comparison.",
    'C05': " Later additions: a connected listener that stops reading, frames above pyzmq's zero-copy threshold and a transport with back pressure (simzmq flow control, message trackers): the synchronized consumer must get every frame as without the listener; OFP!SubHWM, liveness C05_ListenerCannotHold under FairStalled with the design mutation track_wait (TLC must find the lasso).",
    'C06': " Later additions: a required output next to a non-required consumer that keeps requesting (nothing beyond two in-flight publishes may be published while the required output is missing), a '?'-relay that numbers its own output restarted late behind a slow producer (must catch up at once).",
    'C07': " Later additions: a balanced rejoin that is a relay, a worker ending cleanly mid-stream (exits are part of OFP), blocking applications as splitter/workers/rejoin, stored schedules; the splitter publishing on the endpoint of a worker that has just left (outputs not recomputed after CLOSE) is modelled as the code does it and reached by a TLC reachability goal (X_NoStaleEndpoint) replayed with state comparison.",
    'C08': " Later additions: runs that were ending cleanly (exit(), deadline, stop, obeyed clean exit) and then hit an exception in shutdown() are judged as ending by that error (run() raises, 'error' is announced); the protocol-level stage (OFP with Terminate / exit messages / CLOSE) with C08_NoSpuriousExit and C08_WholePipeline; the supervisor Filter.Runner (spec/life/Runner.tla: children's stop events and exit codes as separate steps, stop_exit policies, external stop; R_StopTellsAll, R_Retcodes, R_StepVerdict, R_StopSticky, R_NoneWaitsForAll, liveness R_Terminates) with TLC -simulate behaviours stepped through the real class and the state compared after every action.",
    'C09': " Later additions: data strings with unpaired surrogates, read-only frames derived from a render buffer that is rewritten afterwards, colour-declared frames whose existing JPEG is single-channel (independent reference decode), frames obtained by .rw from a decoded JPEG frame and drawn on before sending (Codec!decrw).",
    'C10': " Later additions: a stream of different jpg-backed frames whose blobs are freed while earlier pictures are kept (every image is the decoding of its own jpg).",
    'C11': " Later additions: every parsed / normalised value is written into by the caller and the same text parsed again (results are fresh objects), white space at the inner slashes of MQTT source paths, pass-through options with falsy values, a VideoOut entry with an explicit params dictionary next to pass-through names (merged, not replaced).",
    'C12': " Later additions: id sources written 'id?!opt' / 'id??!opt'.",
    'C13': " Later additions: carriage returns inside line-mode records, bin records that are bytearrays and two-dimensional buffers, 128-byte cells; a writer that does not flush every record (write(..., flush=False), flush(): RollLog!wbuf - followers see an empty newest file that gets its records later; design mutation skip_empty), and every step formula is evaluated on every call (a toggle in ev: a read() that finds nothing twice in a row is no longer a stuttering step).",
    'C14': " Later additions: crash points at os.open/os.write/os.close of the head files as well as on the file-object path, saved positions of different lengths (128-byte cells), a reader constructed with file_size=1; a reader without autorefresh whose application calls refresh(), with log files deleted under the running reader (also the file it is in the middle of): model check, path cover replay, fault enumeration and TLC trace validation (HeadFile_*_ex, HeadFileCover_ex, TraceHeadFile_ex).",
    'C15': " Later additions: a 300-character token as password; VideoOut with adaptive fps whose RTSP stream is torn down and served again when the frame rate changes mid-run (Redact!adapt_restart, simulated writer clock).",
    'C16': " Later additions: a sample of the vectors through OpenTelemetryClient's own wiring (fresh interpreters) over an alphabet whose names and patterns end in '_histogram', configuration files without a usable safe_metrics section, a permissive exporter exporting every name before the restrictive ones.",
    'C17': " Later additions: float-hazard (side, bound) pairs, chains run through Util.setup()/process() with every other transformation scoped to topic 'main'.",
    'C18': " Later additions: spec/life/Emitter.tla - the emitter object with main-thread calls, single heartbeat-loop iterations, the telemetry bridge's export / force_flush (also after the run has ended), a backend whose emit() raises and consecutive runs; TLC checks START-first / one terminal per run / nothing after it on every call sequence, four design mutations give counterexamples, -simulate behaviours are replayed call by call on the real OpenFilterLineage through the real OTelLineageExporter with the object state compared; an emitter-level lock-discipline probe with random interleavings; exit() before Filter.init() (no START, nothing to end) and stop_logging() raising at the end of a run (ABORT, not COMPLETE).",
}
for _k, _v in ADDENDA.items():
    CHECKS[_k]['text'] = CHECKS[_k]['text'] + _v

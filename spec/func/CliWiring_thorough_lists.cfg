\* facet "lists": comma lists mixing ids and real addresses, hosts other than *, ipc+tcp outputs, self reference, non-mq filter named as a source; larger alphabet than the quick tier, exhaustive for 1-3 filters
CONSTANTS
  Sizes = {1, 2, 3}
  IpcModes = {FALSE, TRUE}
  Names = {"Util", "VideoOut"}
  GivenIds = {}
  NumIds = {}
  SrcForms = {"absent", "tcp", "ipc", "ref+tcp", "tcp+ref", "ref+ref", "self"}
  RefSuffixes = {";t"}
  AddrSuffixes = {"?"}
  UriSuffixes = {""}
  SrcHosts = {"localhost"}
  SrcPorts = {5552}
  OutForms = {"absent", "host", "ipc+tcp", "uri"}
  OutHosts = {"127.0.0.1", "10.0.0.5", "0.0.0.0"}
  Ports = {5554}
  IpcNames = {"pipe"}
  Extras = {""}
  Defects = {"assign_empty_ignored"}
INIT Init
NEXT Next
INVARIANT TypeOK
INVARIANT ErrorsJustified
INVARIANT DesignUniqueIds
INVARIANT DesignEverySourceBound
INVARIANT DesignPortsDisjoint
INVARIANT DesignPassThrough
INVARIANT DesignEmptyRespected
INVARIANT AsIsUniqueIds
INVARIANT AsIsEverySourceBound
INVARIANT AsIsPortsDisjoint
INVARIANT AsIsPassThrough

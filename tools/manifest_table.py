HOOKS = {
    'guard': 'OPENFILTER_VERIF',
    'enable': 'no source hooks are needed: checks import /repo\'s working tree and substitute the module globals '
              '(zmq, time_ns, sleep, threading, open/os) of the modules under test from the harness',
    'baseline_off_cmd': '/verif/tools/baseline_off.sh',
    'source_commits': [],
    'add_only': True,
}
ENGINES = [
    {'name': 'tlc+replay', 'path': '/verif/vlib', 'serves_properties': ['C10', 'C13', 'C14'],
     'kind_free_text': 'TLA+ state-machine specification checked exhaustively by TLC within bounds; TLC-generated '
                       'behaviours (transition cover, -simulate) replayed step by step into the real class with the '
                       'abstract state compared after each step; property monitors on the real objects'},
    {'name': 'tlc+vectors', 'path': '/verif/vlib', 'serves_properties': ['C09', 'C11', 'C12', 'C15', 'C16', 'C17'],
     'kind_free_text': 'TLA+ reference specification of a function/grammar; TLC checks the laws on every case of a '
                       'bounded domain (one state per case) and emits the cases as vectors that are executed against '
                       'the real code'},
]
NOTES = ('All checks: ./check <id> --tier quick|thorough; VERIF_SEED, VERIF_TIER, VERIF_REPO honoured. '
         'Specifications under /verif/spec, known findings in /verif/known_findings.json, design in DESIGN.md.')
NOT_YET = {}
CHECKS = {
    'C11': dict(
        engine='tlc+vectors', technique='TLA+ reference spec of the configuration text grammar and per-filter normalisers (ConfigGrammar.tla) checked by TLC; all cases replayed into the real parse_topics/parse_options and the ten real normalize_config',
        design_ref='DESIGN.md 2.5, 5/C11',
        text='TLC checks for every case in the bounded domains (a) Parse(Render(x)) = x for topic-mapping lists and option '
             'lists, (b) text == list == structured and idempotence of the reference normaliser for 1-4 entries of '
             'Filter/Util/Recorder/VideoIn/VideoOut/ImageIn/ImageOut, (c) the same for the Webvis/REST/MQTTOut address '
             'grammars; a defect-on run must exhibit the whitespace-before-= counterexample. Every case is executed against '
             'the real code and the property\'s own formulas (idempotence, text == structured, parse inverse of render) are '
             'evaluated on the real results.',
        note='state space = set of cases; tokens are words from a fixed vocabulary plus separators; whitespace = one or two '
             'blanks; validity of inputs derived from the docstrings with ambiguity laws; config cases vary one entry among '
             'up to three fixed fillers; MQTTOut compared modulo the random client id'),
    'C09': dict(
        engine='tlc+vectors', technique='TLA+ reference spec (Codec.tla) checked by TLC; all vectors concretised and replayed into the real codec',
        design_ref='DESIGN.md 2.5, 5/C09',
        text='TLC proves the twelve round-trip laws of Codec.tla (same topics and order, no decode error, equal data, image '
             'presence, declared height/width/format, raw pixel identity, existing jpg kept byte for byte, fresh jpg within '
             'JpegClose, decode to declared shape, sender frame unchanged, envelope and part count, mode) on every frame set '
             'of up to 4 topics over 6 frame states x 3 formats x data empty/non-empty x normal/hidden names x outs_jpg in '
             '{None, True, False}, and shows each law rejects a hypothetical deviation; all emitted cases are executed on the '
             'real MQ.frames2topicmsgs / topicmsgs2frames directly, through zeromq.py\'s message framing and through a real '
             'zmq inproc socket, at 11-14 sizes x 8 memory layouts x 4 blob types with nested-JSON data, and the property\'s '
             'own formula is evaluated on the result.',
        note='state space = set of cases; JPEG numerics are an uninterpreted predicate in the spec, evaluated by the harness '
             'as MAE <= 2 x OpenCV\'s own round-trip error + 4; data = JSON dicts with string keys, finite floats, '
             'well-formed Unicode'),
    'C12': dict(
        engine='tlc+vectors', technique='TLA+ reference spec (CliWiring.tla) checked by TLC; all cases replayed into the real parse_filters / cmd_run',
        design_ref='DESIGN.md 2.5, 5/C12',
        text='TLC builds every command line of 1-3 (quick) / 1-4 (thorough) filters over five facet alphabets (chain, ids, '
             'refs, ports, lists) and samples 2-6-filter command lines with -simulate; on each it evaluates the reference '
             'ParseFilters (written phase by phase like cli/common.py) and checks UniqueIds, EverySourceBound, PortsDisjoint, '
             'PassThrough on the intended design and on the code as it stands; every case is emitted as a vector, rendered '
             'to a real argv with built-in filters, executed against the real parse_filters (1 in 5 through cmd_run), '
             'compared with the reference wiring (drift) and the four laws are evaluated on the real result (violation).',
        note='state space = set of command lines; exhaustive within the facet alphabets, 5-6 filters sampled; user-given '
             'ports/ipc names pairwise disjoint; --outputs_metrics, unknown ids, mixed mq/non-mq output lists outside the '
             'domain; an empty --sources=/--outputs= being ignored is reported as drift only (intent documented only in a '
             'code comment)'),
    'C10': dict(
        engine='tlc+replay', technique='TLA+ state-machine spec (heap + frames) checked by TLC; transition-cover and simulated behaviours replayed into the real Frame class; model-free property monitors',
        design_ref='DESIGN.md 2.4, 3.2, 5/C10',
        text='TLC proves Fresh/NoAlias/RoStaysRo/JpgOnlyOnFrozen/JpgFresh on FrameViews.tla (intended design) for every '
             'sequence of <=3 (quick) / <=4 (thorough) operations from 12 start frames, and exhibits the counterexample for '
             'each named defect. Every transition of the state graph is replayed on real Frame objects (3 sizes) and the '
             'projected real world is compared with the model state; -simulate behaviours of 12 operations are compared after '
             'every step; seeded random walks of 12-16 operations run on the real objects; the property formulas are '
             'evaluated on the real objects after every step by a model-free monitor (only it produces violations).',
        note='exhaustive to length 3/4, longer sequences sampled; an in-place edit is a whole-array +37; jpg correspondence '
             'is exact (cv2 determinism trusted); GRAY judged against cv2 luminance; frames without image excluded'),
    'C17': dict(
        engine='tlc+vectors', technique='TLA+ reference spec (Xform.tla) checked by TLC; all cases replayed into the real Util.execute_xforms and VideoReader.thread_reader',
        design_ref='DESIGN.md 2.5, 5/C17',
        text='TLC evaluates the 13 laws of C17 (no-fail, resize exact, video fit-inside, max/min bounds, never '
             'enlarge/shrink, aspect within one pixel, independent bounds for +, exact permutations and their algebra, '
             'format keeps size, box inside rectangle) on the exact-integer reference for every case of the bounded domain '
             'plus harness-supplied large-size boundary families (to 4000 px) and sampled 3-chains; with the named '
             'deviations switched on TLC exhibits the zero-dimension and video-resize counterexamples. Every case is '
             'executed against the real code on coordinate-encoded frames (GRAY/BGR/RGB, read-only and writable, all '
             'interpolation codes); the property formulas are evaluated on every real step and size/format/pixels are '
             'compared with the reference.',
        note='state space = set of cases; bounds >= 1; interpolated pixel values and GRAY box luminance not judged; video '
             'frames injected (vidgear stubbed), a sample cross-checked through the reader thread; declared deviation: '
             'float truncation may leave the limiting side one pixel short (falsifies no law)'),
    'C15': dict(
        engine='tlc+vectors', technique='TLA+ information-flow spec (Redact.tla) checked by TLC; every structural case replayed into the real filters with capturing logger, lineage client and MQ',
        design_ref='DESIGN.md 2.5, 5/C15',
        text='TLC proves NoCleartextAtSink of Redact.tla (information-flow model: configuration path -> normalisation -> '
             'sinks, Mask nodes where the code masks) for the intended design on every case (10 filter classes x top '
             'container x key x nestings x single/comma x fault mode x scheme class x character class); for each named '
             'deviation TLC exhibits the leaking case, which is replayed on the code. One vector per structural case is '
             'instantiated with unique secrets and executed on the real filter classes: root-logger records, lineage events '
             'and frames handed downstream are searched for the password, and the host must stay readable.',
        note='state space = set of cases; masking regexes are uninterpreted in TLA+ and exercised per scheme/character '
             'class; vidgear and MQ replaced by stand-ins; six built-in filters driven through __init__/init/fini only'),
    'C16': dict(
        engine='tlc+vectors', technique='TLA+ reference spec (Allowlist.tla) checked by TLC; all cases replayed into the real exporter',
        design_ref='DESIGN.md 2.5, 5/C16',
        text='TLC evaluates the allow-list laws (lock-down, only-listed, union, monotone, histogram shape) on every '
             '(allow-list, allow-list, metric set) case of the bounded domain and emits every (allow-list, metric set) '
             'vector; each vector is executed against the real OTelLineageExporter fed by a real OpenTelemetry '
             'MeterProvider through all allow-list sources (argument, OF_SAFE_METRICS, YAML, default) and through '
             'OpenTelemetryClient\'s own wiring; the exported names must be a subset of the reference.',
        note='state space = set of cases, not interleavings; names rendered from a 2-3 letter alphabet, patterns with '
             "'*' only; OpenTelemetry SDK aggregation trusted"),
}

"""C05 - ephemeral listeners never hold up or alter the synchronized stream.

Specification: spec/proto/OFP.tla: do_send / outputs recomputation ignores clients with eph > 0 (DoSend), an ephemeral
request never fast-forwards min_send_id (SPollMsg), '??' sources have no request pipe at all (Request), ephemeral sources
keep their own expected id and never invalidate synchronized sources (ProcMsg).  Formulas: C05_GuardSync (action-level),
C05_EphComplete / C05_EphOrder at ephemeral deliveries, TypeOK ('??' never requests), and C03 for the synchronized sinks
in the presence of arbitrary ephemeral behaviour.
On the real code additionally a differential: the same pipeline with and without its ephemeral consumers, under the
global virtual clock - the publisher's publish times must not be later and the synchronized sinks' inputs identical.
"""
from . import common, topos, observers, simzmq, proto
from .common import Report
from .proto import SimPipeline
from .protocheck import Engine, replay_witness, run_schedule

PROPS = ('C05_EphComplete', 'C05_EphOrder', 'C05_NoTraffic', 'C05_SyncUnchanged', 'C05_NoDelay')
INV = ('C05', 'TypeOK', 'NoCrash')


def pub_times(topo, pipe, g):
    """first virtual publish time of every frame id of publisher g (current incarnation 0)"""
    out = {}
    for ev in pipe.world.events:
        if ev[0] == 'pubt' and ev[1] == g:
            out.setdefault(ev[2], ev[3])
    return out


def differential(eng, rep, topo, n, steps, mode):
    """mode: how the ephemeral consumers behave: 'run', 'stall' (never scheduled), 'kill' (die at a random step)"""
    sync = topos.sync_only(topo)
    ephs = [f for f in topo.names if f not in sync.names]
    for k in range(n):
        rng = common.rng(eng.ctx, f'diff/{topo.name}/{mode}/{k}')
        res = []
        for tp, with_eph in ((topo, True), (sync, False)):
            pipe = SimPipeline(tp, local_clocks=False)
            w = pipe.world
            # record virtual publish times of data publishes
            orig_emit = w.emit

            def emit(*ev, _w=w, _o=orig_emit):
                _o(*ev)
                if ev[0] == 'pub':
                    topic, env = simzmq.hdr(ev[3])
                    if env['mid'] >= 0 and topic == '//':
                        _o('pubt', ev[1].split('/')[0], env['mid'], _w.now_ns)
            w.emit = emit
            try:
                pipe.start()
                if with_eph and mode in ('stall', 'late'):
                    for e in ephs:
                        pipe.stall(e)
                faults = None
                if with_eph and mode == 'late':      # the listeners attach after the synchronized consumers are registered
                    at = rng.randrange(120, 200)
                    faults = [(at, lambda p, ephs=ephs: [p.resume(e) for e in ephs])]
                if with_eph and mode == 'kill':
                    at = rng.randrange(10, 150)
                    faults = [(at, lambda p, ephs=ephs: [p.kill(e, True) for e in ephs if e in p.world.tasks])]
                run_schedule(pipe, None, steps, p_timeout=0.0, quiet=300, faults=faults)
                # what each consumer got from its SYNCHRONIZED sources (a consumer may also have ephemeral sources of its own)
                syncpubs = {f: {s_['pub'] for s_ in sync.filters[f]['srcs']} for f in sync.names}
                # topics a consumer gets through a '?' attachment to a publisher it is also synchronized with
                ephtopics = {f: {y for s_ in topo.filters[f]['srcs'] if s_['eph'] and s_['pub'] in syncpubs[f] for _, y in s_['tmap']}
                             for f in sync.names}
                res.append((pipe, {g: pub_times(tp, pipe, g) for g in sync.names if tp.filters[g]['nout']},
                            {f: [x for x in ((r['id'], {t: v for t, v in r['frames'].items()
                                                        if observers.publisher_of_token(topo, v) in syncpubs[f] and t not in ephtopics[f]})
                                             for r in pipe.delivered[f]) if x[1]]
                             for f in sync.names if sync.filters[f]['srcs']}))
            except BaseException:
                pipe.close()
                raise
        (p1, t1, d1), (p2, t2, d2) = res
        try:
            rep.case(('diff', topo.name, mode, k), nontrivial=any(d1.values()))
            rep.traces += 2
            how = {'kind': 'differential', 'topo': topo.name, 'mode': mode, 'k': k, 'seed': eng.ctx.seed}
            # only filters whose sources are all synchronized in the FULL topology are "synchronized consumers"
            for f in d2:
                if f in d1 and d1[f] != d2[f]:
                    rep.violation(f'C05_SyncUnchanged: with ephemeral consumers ({mode}) {f} receives {[x[0] for x in d1[f]]}, '
                                  f'without them {[x[0] for x in d2[f]]}  [{topo.name} diff/{mode}/{k}]',
                                  {'how': how, 'with': d1[f][:10], 'without': d2[f][:10]},
                                  {'formula': 'C05_SyncUnchanged', 'topology': topo.name})
            for g in t2:
                for mid, tw in t2[g].items():
                    te = t1.get(g, {}).get(mid)
                    if te is None or te > tw + 1_000_000:      # later than without the listeners (1 ms of slack)
                        rep.violation(f'C05_NoDelay: {g} publishes frame {mid} at t={te} with ephemeral consumers ({mode}) but at '
                                      f't={tw} without them  [{topo.name} diff/{mode}/{k}]',
                                      {'how': how, 'with': sorted(t1.get(g, {}).items())[:12], 'without': sorted(t2[g].items())[:12]},
                                      {'formula': 'C05_NoDelay', 'topology': topo.name})
                        break
        finally:
            p1.close()
            p2.close()


def flow_topo(maxseq=1):
    """S -> K synchronized, E a '?' listener; transport with back pressure (OFP!SubHWM = 1, PubHWM = 2)"""
    from .proto import Topo
    t = Topo('EphFlow', {'S': dict(nout=1, beh=topos.beh('origin', tseq=[['main']])),
                         'K': dict(srcs=[topos.src('S')]),
                         'E': dict(srcs=[topos.src('S', eph=1)])}, maxseq=maxseq, pub_hwm=2)
    t.sub_hwm = 1
    return t


def listener_cannot_hold(eng, rep, ctx):
    """liveness under FairStalled (a listener may stop reading for good, transport with back pressure): every origin still hands
    off all its frames.  The design mutation track_wait (send() returns only when libzmq has released the buffers) must violate
    it; the intended design is checked in the thorough tier (1.2 M states)."""
    kw = dict(invariants=(), properties=('C05_ListenerCannotHold',), view=False, fault_kinds=('stall',), victims=('E',),
              max_faults=1)
    r = eng.model_check(flow_topo(), 'FairStalled', name='EphFlow/FairStalled/track_wait', expect_ok=False, defects=['track_wait'],
                        timeout=900 if ctx.quick else 3000, **kw)
    if not r.timed_out and not r.violated:
        raise common.MachineryError('the design mutation track_wait satisfies C05_ListenerCannotHold: the formula is vacuous')
    if not ctx.quick:
        eng.model_check(flow_topo(), 'FairStalled', name='EphFlow/FairStalled', timeout=3000, **kw)


def deaf_listener(eng, rep, ctx, ks):
    """a connected '?' / '??' listener that stops reading, frames of more than 64 KiB (the size from which pyzmq hands buffers
    to libzmq by reference), transport with back pressure (simzmq flow_control: the listener's SUB pipe takes RCVHWM messages and
    no more, the publisher's pipe fills to ZMQ_PUB_HWM and drops from there): the synchronized consumer must get every frame,
    exactly as without the listener.  Real MQ objects on both sides; OFP: SubHWM > 0, C05_ListenerCannotHold."""
    import numpy as np
    Z = proto.load_real()
    from openfilter.filter_runtime.mq import MQ
    from openfilter.filter_runtime.frame import Frame
    nfr = 30           # the listener's pipes hold 2 + 20 messages = 11 frames
    ks = list(ks)
    for k in ks:
        got = {}
        for with_eph in (True, False):
            rng = common.rng(ctx, f'deaf{k}')
            w = simzmq.World(local_clocks=False)
            w.flow_control, w.rcvhwm_of = True, {'E': 2}      # (everybody else: the library default of 1000)
            simzmq.Context.world = w
            Z.ZMQContext.context = (None, 0)
            Z.time_ns, Z.sleep = w.time_ns, w.sleep
            Z.ZMQ_CONN_TIMEOUT, Z.ZMQ_PUB_HWM, Z.ZMQ_PUSH_HWM = 10 ** 9, 20, 100
            recv = []
            eph = ('?', '??')[k % 2]

            def origin():
                mq = MQ(None, 'tcp://*:6000', 'S', outs_metrics=False, outs_filter=False, outs_jpg=False)
                for i in range(nfr):
                    img = np.full((150, 160, 3), (i * 17 + 3) % 256, np.uint8)       # 72 000 bytes raw
                    while not mq.send({'main': Frame(img, {'i': i}, 'BGR')}, 100):
                        pass
                w.cur.park(('idle',))

            def sink():
                mq = MQ([('tcp://127.0.0.1:6000', None)], None, 'K')
                while True:
                    while (fr := mq.recv(100)) is None:
                        pass
                    recv.append((mq.send_state.msg_id, int(fr['main'].image[0, 0, 0])))

            def listener():
                mq = MQ([('tcp://127.0.0.1:6000' + eph, None)], None, 'E')
                while (fr := mq.recv(100)) is None:
                    pass
                w.cur.park(('idle',))             # got one frame, stays connected, never reads again
            w.spawn('S', origin)
            w.spawn('K', sink)
            if with_eph:
                w.spawn('E', listener)

            class P:
                world = w
                delivered = {'K': recv}
                oseq = {'S': 0}
                stalled = set()

                def enabled(self):
                    return w.enabled()

                def do(self, a):
                    w.do(a)
            try:
                run_schedule(P(), rng, 12000, p_timeout=0.0, quiet=400)
            finally:
                w.record_events = False
                w.kill_all()
            got[with_eph] = list(recv)
        rep.case(('deaf-listener', k), nontrivial=len(got[False]) == nfr)
        rep.traces += 2
        if got[True] != got[False]:
            rep.violation(f'C05_SyncUnchanged: with a connected {eph!r} listener that has stopped reading, the synchronized consumer gets '
                          f'frames {[x[0] for x in got[True]]} of {nfr} (72 000-byte images), without the listener '
                          f'{[x[0] for x in got[False]]}  [deaf-listener {k}]',
                          {'how': {'kind': 'deaf-listener', 'k': k, 'seed': ctx.seed}, 'with': got[True], 'without': got[False]},
                          {'formula': 'C05_SyncUnchanged', 'topology': 'DeafListener'})
    print(f'  [diff] deaf listener: {len(ks)} runs with a listener that stops reading (flow control, 72 kB frames)', flush=True)


def listener_last_restart(eng, rep, n):
    """a '?' listener registers AFTER the synchronized consumer; the (slow) publisher is killed late in the stream and started
    again: the synchronized consumer's request for the id it is at must pull the new publisher up to that id at once - with the
    listener exactly as without it (differential on the time until the consumer's next frame)"""
    from .c06 import step_until, POLL_NS
    full = topos.eph_side(maxseq=40, conn_ticks=5)
    full.filters.pop('W')
    full.names.remove('W')
    full.filters['S']['beh']['slow'] = True
    full.name = 'EphSideSlowListenerLast'
    sync = topos.sync_only(full)
    for k in range(n):
        heal = {}
        for tp, with_eph in ((full, True), (sync, False)):
            pipe = SimPipeline(tp, local_clocks=False)
            w = pipe.world
            try:
                pipe.start()
                if with_eph:
                    pipe.stall('E')
                step_until(pipe, lambda p: len(p.delivered['K']) >= 1, 3000)
                if with_eph:
                    pipe.resume('E')
                nfr = 6 + 2 * k
                step_until(pipe, lambda p: len(p.delivered['K']) >= nfr, 20000)
                pipe.kill('S', False)
                pipe.restart('S')
                t0, mark = w.now_ns, len(pipe.delivered['K'])
                step_until(pipe, lambda p: len(p.delivered['K']) > mark or w.now_ns > t0 + 60 * POLL_NS, 20000)
                heal[with_eph] = (w.now_ns - t0) if len(pipe.delivered['K']) > mark else None
            finally:
                pipe.close()
        rep.case(('listener-last-restart', k), nontrivial=True)
        rep.traces += 2
        a, b = heal[True], heal[False]
        if b is not None and (a is None or a > b + 2 * POLL_NS):
            rep.violation(f'C05_NoDelay: after a restart of its publisher (frame {6 + 2 * k}) the synchronized consumer K gets its next frame '
                          f'after {None if a is None else a // 1_000_000} ms with a \'?\' listener registered after it, after {b // 1_000_000} ms '
                          f'without the listener  [{full.name} {k}]',
                          {'how': {'kind': 'differential', 'topo': full.name, 'mode': 'listener-last-restart', 'k': k, 'seed': eng.ctx.seed},
                           'heal_ms': {'with': a, 'without': b}}, {'formula': 'C05_NoDelay', 'topology': full.name})
    print(f'  [diff] {full.name}: {n} publisher restarts with the listener registered last', flush=True)


def balance2_eph_first(**kw):
    t = topos.balance2_eph(**kw)
    t.name = 'Balance2EphFirst'
    return t


def scenarios(quick):
    T = topos
    return dict(
        mc=[(T.eph_side(maxseq=1), 'SpecZL', {}, {}),
            (T.dual_attach(maxseq=2), 'SpecZL', {}, {}),
            (T.tee_rejoin_eph(maxseq=1), 'SpecZL', dict(lq=8), {})] +
           ([] if quick else [
               (topos.with_required(T.eph_side(maxseq=1)), 'SpecZL', {}, dict(max_faults=1, fault_kinds=['stall', 'kill'], victims=['E', 'W'], check_c03=True)),
               (T.eph_side(maxseq=2), 'SpecZL', {}, {}),
               (T.balance2_watch(maxseq=2), 'SpecZL', {}, {}),
               (T.bal_listen(maxseq=3), 'SpecZL', {}, {})]),
        conf=[(T.eph_side(maxseq=2), 'SpecPrompt', 8 if quick else 100, 200, dict(max_faults=1, fault_kinds=['stall', 'kill'], victims=['E', 'W'])),
              (T.tee_rejoin_eph(maxseq=2), 'SpecPrompt', 8 if quick else 100, 250, {}),
              (T.eph_side(maxseq=2), 'Spec', 6 if quick else 60, 250, {}),
              (T.eph_multi(maxseq=2), 'SpecPrompt', 8 if quick else 80, 250, {}),
              (T.eph_first(maxseq=2), 'SpecPrompt', 6 if quick else 60, 250, {}),
              (T.balance2_eph(maxseq=3), 'SpecPrompt', 6 if quick else 60, 300, {}),
              # one consumer attached to the same publisher twice: synchronized and as a '?' listener
              (T.dual_attach(maxseq=3), 'SpecPrompt', 6 if quick else 60, 250, {})],
        rand=[(T.eph_side(maxseq=4), 8 if quick else 150, 800, 0.05, 0.03),
              (T.tee_rejoin_eph(maxseq=4), 8 if quick else 150, 1200, 0.03, 0.0),
              (T.balance2_watch(maxseq=4), 6 if quick else 100, 1000, 0.03, 0.0),
              (T.eph_multi(maxseq=4), 10 if quick else 150, 1000, 0.03, 0.0)],
        diff=[(topos.with_required(T.eph_side(maxseq=5)), 3 if quick else 40, 1500, 'run'),
              (topos.with_required(T.eph_side(maxseq=5)), 3 if quick else 40, 1500, 'stall'),
              (topos.with_required(T.eph_side(maxseq=5)), 3 if quick else 40, 1500, 'kill'),
              (topos.with_required(T.tee_rejoin_eph(maxseq=4)), 3 if quick else 40, 2000, 'run'),
              (topos.with_required(T.tee_rejoin_eph(maxseq=4)), 3 if quick else 40, 2000, 'stall'),
              (topos.with_required(T.tee_rejoin_eph(maxseq=8)), 3 if quick else 40, 3000, 'kill'),
              # a '?' listener on the endpoint of a slow worker of a balanced splitter
              (T.balance2_eph(maxseq=40), 3 if quick else 40, 9000, 'late'),
              # the same with every worker slower than the listener: the listener must not pull frames onto its endpoint
              (T.balance2_eph(maxseq=40, w_ms=(400, 100)), 3 if quick else 40, 12000, 'late'),
              # a consumer that lists an ephemeral source before its synchronized one
              (topos.with_required(T.eph_first(maxseq=40, slowK=True)), 3 if quick else 40, 12000, 'run'),
              # a join that has to pull one of its sources up to the sparse ids of the other, a listener attaching late to that source
              (T.join_sparse_eph(maxseq=40), 3 if quick else 30, 9000, 'late'),
              # a slow consumer that is attached to its publisher twice (synchronized for one topic, '?' for another)
              (topos.with_required(T.dual_attach(maxseq=40, slowK=True)), 2 if quick else 30, 12000, 'run'),
              # the same with the listener attached from the very start (before the slow worker has registered): known finding
              (balance2_eph_first(maxseq=10), 2 if quick else 10, 4000, 'run')],
    )


def run(ctx):
    rep = Report(ctx)
    rep.rule = ('case = one execution of the real pipeline with synchronized, ? and ?? consumers on one publisher under one '
                'schedule (TLC counterexample of a mutated design, TLC -simulate behaviour, random schedule), or one differential '
                'pair (same pipeline with / without its ephemeral consumers under the global virtual clock); non-trivial = at '
                'least one frame set handed to a process()')
    rep.assumptions = ['simulated ZeroMQ', 'differential runs use a deterministic prompt scheduler with earliest-deadline timeouts']
    eng = Engine(ctx, rep, PROPS)
    sc = scenarios(ctx.quick)
    for topo, spec, bounds, kw in sc['mc']:
        eng.model_check(topo, spec, invariants=INV + (('C03',) if kw.get('check_c03') else ()) + ('C01', 'C02'), bounds=bounds,
                        timeout=900 if ctx.quick else 3000, **kw)
    for topo, spec, num, depth, kw in sc['conf']:
        eng.conformance(topo, spec, num, depth, **kw)
    eng.cover(topos.eph_side(maxseq=0), 'SpecZL', max_paths=150 if ctx.quick else None)
    for topo, n, steps, pt, pd in sc['rand']:
        eng.random_runs(topo, n, steps, p_timeout=pt, p_drop=pd, tag='rand', validate=3 if ctx.quick else 25)
    for topo, n, steps, mode in sc['diff']:
        differential(eng, rep, topo, n, steps, mode)
    deaf_listener(eng, rep, ctx, range(4 if ctx.quick else 24))
    listener_cannot_hold(eng, rep, ctx)
    return rep.finish()


def replay(ctx):
    import json
    how = json.load(open(ctx.replay))['witness']['how']
    if how.get('kind') == 'deaf-listener':
        rep = Report(ctx)
        deaf_listener(Engine(ctx, rep, PROPS), rep, ctx, [how['k']])
        for v in rep.violations:
            print('VIOLATION-REPRODUCED', v[0][:300])
        return 1 if rep.violations else 0
    if how.get('kind') == 'differential':
        print('differential witnesses are re-run by the check itself (seeded): ./check C05 with VERIF_SEED=%s' % how['seed'])
        return run(ctx)
    return replay_witness(ctx, PROPS + ('C03_Prefix', 'C03_Complete'))

\* sampled (TLC -simulate, NEXT SampleNext): the full alphabet, command lines of 5-6 filters
CONSTANTS
  Sizes = {5, 6}
  IpcModes = {FALSE, TRUE}
  Names = {"VideoIn", "Util", "Webvis", "VideoOut"}
  GivenIds = {"a", "b", "Util"}
  NumIds = {"Util"}
  SrcForms = {"absent", "assign_empty", "bare", "uri", "uri2", "ref", "tcp", "ipc", "ref+tcp", "tcp+ref", "ref+ref"}
  RefSuffixes = {"", "?", "??", ";t", ";a>b", "!o", "??;t!o", ";t;a>b", "?!o", "??!o"}
  AddrSuffixes = {"", "??", ";t"}
  UriSuffixes = {"", "!o"}
  SrcHosts = {"localhost", "10.0.0.5"}
  SrcPorts = {0, 5552, 6000}
  OutForms = {"absent", "assign_empty", "bare", "tcp", "host", "ipc", "two", "ipc+tcp", "uri"}
  OutHosts = {"127.0.0.1", "0.0.0.0", "0", "10.0.0.5"}
  Ports = {0, 1024, 5548, 5549, 5551, 5552, 5553, 5554, 5555, 5556, 5557, 5558, 5559, 5560, 64998, 65000}
  IpcNames = {"pipe", "q"}
  Extras = {"", "log", "misc", "neg"}
  Defects = {"assign_empty_ignored"}
INIT Init
NEXT SampleNext
INVARIANT TypeOK
INVARIANT ErrorsJustified
INVARIANT DesignUniqueIds
INVARIANT DesignEverySourceBound
INVARIANT DesignPortsDisjoint
INVARIANT DesignPassThrough
INVARIANT DesignEmptyRespected
INVARIANT AsIsUniqueIds
INVARIANT AsIsEverySourceBound
INVARIANT AsIsPortsDisjoint
INVARIANT AsIsPassThrough

"""C09 - what a filter sends is what the next filter gets (wire codec round trip).

Specification: spec/func/Codec.tla - abstract frame states (no image / raw writable / raw read-only / jpg-only not yet
decoded / jpg + decoded / read-only with cached jpg) x format x data x topic name x outs_jpg, `EncOne` shaped like
MQ.frames2topicmsgs, `DecOne` like MQ.topicmsgs2frames, the lazily caching accessors of Frame, and the round-trip laws
of the property as invariants over a state space whose states are frame sets (cases).  TLC proves the laws for every
case, shows that each law can fail (hypothetical `Defects`), and serialises one vector per emitted case with the
expected *mode* (no_image / identical / jpg_bytes_identical / jpg_lossy) and the expected envelope, part count, wire
bytes and cache effects.

Binding: every vector is concretised (sizes from 1x1 to 1000x3, contiguous / strided / read-only pixel buffers, the jpg
blob as bytes / bytearray / memoryview / ndarray, data from {} to nested JSON) and pushed through the real
`MQ.frames2topicmsgs` -> [nothing | the message framing of zeromq.py: json_dumps of the envelope with 'xtra', byte
parts; optionally a real zmq inproc socket pair] -> `MQ.topicmsgs2frames`.  The property's own formula is evaluated on
the real result (-> VIOLATION); differences from the reference specification that do not falsify the formula are
reported as DRIFT.

The numeric part of "within JPEG tolerance" is not decided by the specification (uninterpreted `JpegClose`); here it
is: mean absolute error against the sender's pixels <= 2 x (what OpenCV's own encode + decode of the same pixels
loses, at quality 95 and 50) + 4 grey levels.  "No additional loss at all" (bit-equal to OpenCV's default round trip)
is checked too, but a difference there is only drift.
"""
import copy
import hashlib
import json
import os
import tempfile
import threading

from . import common
from .common import Report, run_tlc, tlc_emit_json, tlc_must_pass, SPEC, MachineryError

SPEC_DIR = os.path.join(SPEC, 'func')

# (h, w): 1x1, 1xN, Nx1, odd sizes, 64x48 (w x h), 1000x3 both ways
SIZES = [(1, 1), (1, 7), (9, 1), (3, 5), (48, 64), (1000, 3), (1, 2), (2, 1), (7, 9), (33, 31), (3, 1000)]
LAYOUTS = ['contig', 'rowstep', 'colstep', 'chanslice', 'neg', 'transposed', 'fortran', 'poked']
BLOBS = ['bytes', 'bytearray', 'memoryview', 'ndarray']
OJ = {'None': None, 'True': True, 'False': False}
TRANSPORTS = ('direct', 'wire')

DEFECT_EXPECT = {   # hypothetical deviation of Codec.tla -> invariants one of which TLC must report
    'env_wh_swapped': {'InvDeclared', 'InvRaw', 'InvShape', 'InvEnvelope'},
    'data_dropped_no_image': {'InvData', 'InvEnvelope'},
    'gray_as_colour': {'InvNoError'},
    'jpg_reencoded': {'InvJpgKept', 'InvMode'},
}

FIXED_DATA = [
    {'a': None}, {'': 0}, {'k': {}}, {'meta': {'id': 7, 'src': 'file://x', 'ts': 1727000000.123456}},
    {'0': False}, {'ü': '日本語 😀', 'n': [1, [2, [3, {'x': None}]]]},
    {'big': 2 ** 200, 'neg': -10 ** 100, 'f': 1e308, 'tiny': 5e-324, 'z': -0.0, 'e': 1.5e-7, 'i53': 2 ** 53 + 1},
    {'s': 'quote " backslash \\ nl \n tab \t nul \x00 ls \u2028', 'l': [], 'd': {}},
    {'dets': [{'class': 'person', 'rois': [[0.1, 0.25, 0.5, 0.75]], 'conf': 0.987654321}] * 3, 'ok': True},
    # str values that are not encodable as UTF-8 by themselves: a surrogate-escaped file name (os.fsdecode), a cut pair
    {'file': 'caf\udce9.mp4', 'cut': 'smile \ud83d', '\udc80key': ['\udfff']},
]


# ---------------------------------------------------------------------------------------------------------------------
# concretisation

def _np():
    import numpy as np
    return np


def pattern(h, w, ch, seed=0):
    """Smooth, asymmetric gradients (distinct per channel, so flips / transposes / channel swaps are visible and JPEG
    is accurate on anything but tiny sizes) plus +-3 of deterministic noise (so raw identity is a real test)."""
    np = _np()
    r = np.arange(h, dtype=np.float64)[:, None] / max(h - 1, 1)
    c = np.arange(w, dtype=np.float64)[None, :] / max(w - 1, 1)
    g = np.random.default_rng(1000 + seed)
    chans = [30 + 180 * r + 0 * c, 220 - 150 * c + 0 * r, 40 + 90 * r + 80 * c]
    out = np.stack([x + g.integers(-3, 4, size=(h, w)) for x in chans[:ch]], axis=-1).clip(0, 255).astype(np.uint8)
    return np.ascontiguousarray(out[..., 0] if ch == 1 else out)


def layout_view(px, layout):
    """A writable array with the contents of `px` and the memory layout `layout`."""
    np = _np()
    h, w = px.shape[:2]
    if layout in ('contig', 'poked'):
        return px.copy()
    if layout == 'rowstep':
        base = np.zeros((2 * h,) + px.shape[1:], np.uint8)
        base[::2] = px
        return base[::2]
    if layout == 'colstep':
        base = np.zeros((h, 2 * w) + px.shape[2:], np.uint8)
        base[:, ::2] = px
        return base[:, ::2]
    if layout == 'chanslice':
        if px.ndim == 3:
            base = np.full((h, w, 4), 77, np.uint8)      # e.g. the BGR part of a BGRA buffer
            base[..., :3] = px
            return base[..., :3]
        base = np.full((h, w, 3), 77, np.uint8)          # one channel of a colour buffer
        base[..., 1] = px
        return base[..., 1]
    if layout == 'neg':
        base = np.ascontiguousarray(px[::-1, ::-1])
        return base[::-1, ::-1]
    if layout == 'transposed':
        base = np.ascontiguousarray(px.swapaxes(0, 1))
        return base.swapaxes(0, 1)
    if layout == 'fortran':
        return np.asfortranarray(px)
    raise ValueError(layout)


def jpg_of(px, quality=None):
    import cv2
    ok, buf = cv2.imencode('.jpg', px, [] if quality is None else [cv2.IMWRITE_JPEG_QUALITY, quality])
    if not ok:
        raise MachineryError('cv2.imencode failed in the harness')
    return bytes(memoryview(buf))


def decode_ref(jpg, gray):
    import cv2
    np = _np()
    return cv2.imdecode(np.frombuffer(jpg, np.uint8), 0 if gray else cv2.IMREAD_COLOR)


def blob_of(jpg, kind):
    np = _np()
    return {'bytes': lambda: bytes(jpg), 'bytearray': lambda: bytearray(jpg), 'memoryview': lambda: memoryview(jpg),
            'ndarray': lambda: np.frombuffer(jpg, np.uint8)}[kind]()


def build_frame(t):
    """Build the real Frame for one topic descriptor t = {kind, fmt, data, h, w, layout, blob, seed}.  Returns
    (frame, info) where info holds everything the oracle needs, observed on the frame *before* it is encoded."""
    from openfilter.filter_runtime.frame import Frame
    np = _np()
    kind, fmt, h, w = t['kind'], t['fmt'], t['h'], t['w']
    data = copy.deepcopy(t['data'])
    info = {'desc': t}
    if kind == 'none':
        x = Frame(data) if t.get('seed', 0) % 2 == 0 else Frame(None, data)
    else:
        ch = 1 if fmt == 'GRAY' else 3
        px = pattern(h, w, ch, t.get('seed', 0))
        if kind in ('rw', 'ro', 'rocached'):
            arr = layout_view(px, t['layout'])
            if kind == 'rw' and t['layout'] == 'poked':
                x = Frame(arr, data, fmt)
                _ = x.jpg                              # a writable frame whose jpg was asked for once ...
                arr[...] = 255 - arr                   # ... and whose pixels were rewritten afterwards
                info['px'] = np.array(arr, copy=True, order='C')
            elif kind == 'rocached' and t['layout'] == 'poked':
                owner = Frame(arr, None, fmt)          # the producer's reusable render buffer
                x = Frame(owner.ro, data)              # the read-only frame it hands on ...
                _ = x.jpg                              # ... encoded once (cached) ...
                arr[...] = 255 - arr                   # ... before the producer renders the next picture into its buffer
                info['px'] = np.array(x.image, copy=True, order='C')     # what the frame holds when it is sent
            else:
                if kind != 'rw':
                    arr.flags.writeable = False
                x = Frame(arr, data, fmt)
                if kind == 'rocached':
                    _ = x.jpg                          # read-only image: the encoding is cached in the frame
                info['px'] = np.array(arr, copy=True, order='C')
        else:
            # an encoding that comes from outside (a camera, an upload) may be a single-channel JPEG although the frame is
            # declared a colour frame: it decodes to the declared shape all the same
            jpg = jpg_of(pattern(h, w, 1, t.get('seed', 0)) if ch == 3 and t.get('seed', 0) == 4 else px)
            if t.get('seed', 0) in (1, 3) and jpg[2:4] == b'\xff\xe0':
                # a JPEG without the JFIF APP0 segment (camera / MJPEG style): SOI followed directly by the tables
                jpg = jpg[:2] + jpg[4 + int.from_bytes(jpg[4:6], 'big'):]
            if t.get('seed', 0) in (2, 3) and t['blob'] in ('bytes', 'bytearray'):
                # the same frame made by Frame.from_blob (an upload): with the dimensions (lazy) or without them (decoded at once)
                x = Frame.from_blob(blob_of(jpg, t['blob']), data, *((h, w) if kind not in ('jpgdec', 'decrw') else (None, None)), fmt)
            else:
                x = Frame.from_jpg(blob_of(jpg, t['blob']), data, h, w, fmt)
            if kind in ('jpgdec', 'decrw'):
                _ = x.image
            # what the frame's image is: the decoding of its jpg to the declared shape (reference decode, not the frame's own)
            info['px'] = decode_ref(jpg, ch == 1)
            if kind == 'decrw':
                # the application asks for a writable frame and draws on it: what it sends is the drawn picture
                x = x.rw
                img = x.image
                if img.flags.writeable:
                    img[...] = 255 - img
                info['px'] = np.array(x.image, copy=True, order='C')
    # the encoding that already exists: the blob the frame was made from (ground truth, not what x.jpg says now),
    # or - for a frame that encoded itself earlier - what x.jpg returned
    existing = jpg if kind in ('jpgonly', 'jpgdec') else (bytes(x.jpg) if x.has_jpg else None)
    info.update(has_image=bool(x.has_image), has_jpg=bool(x.has_jpg), has_raw=bool(x.has_raw), h=x.height, w=x.width,
                fmt=x.format, shape=x.shape, data=copy.deepcopy(x.data), is_rw=x.is_rw, jpg=existing)
    if kind in ('jpgonly', 'jpgdec'):
        info['has_jpg'] = True        # ground truth: the frame was made from a JPEG encoding, whatever it says of itself
    if kind == 'decrw':
        info['has_jpg'], info['jpg'] = False, None     # ground truth: no encoding of the drawn picture exists
    return x, info


# ---------------------------------------------------------------------------------------------------------------------
# the wire: framing of one message as ZMQSender.send_maybe / ZMQReceiver.recv_once do it

class ZmqPair:
    """A real zmq PAIR/PAIR inproc connection (no network): send_multipart / recv_multipart of the framed message."""

    def __init__(self):
        import zmq
        self.ctx = zmq.Context()
        self.a, self.b = self.ctx.socket(zmq.PAIR), self.ctx.socket(zmq.PAIR)
        addr = f'inproc://c09-{id(self)}'
        self.a.bind(addr)
        self.b.connect(addr)

    def xfer(self, parts):
        self.a.send_multipart(parts)
        if not self.b.poll(5000):
            raise MachineryError('zmq inproc pair did not deliver')
        return self.b.recv_multipart()

    def close(self):
        self.a.close(0)
        self.b.close(0)
        self.ctx.term()


def over_wire(topicmsgs, pair=None):
    """zeromq.py l.466-479 (sender) and l.758-766 (receiver), same statements, no sockets unless `pair`."""
    from json import dumps as json_dumps, loads as json_loads
    env = {'sid': 'verif', 'mid': 1, 'topics': list(topicmsgs)}
    out = {}
    for topic, msg in topicmsgs.items():
        env['xtra'] = msg[0]
        tb = f'{"" if topic.startswith("_") else "/"}{topic}/'.encode()
        m = [tb, json_dumps(env, separators=(',', ':')).encode(), *msg[1:]]
        m = pair.xfer(m) if pair is not None else [bytes(p) for p in m]
        rtopic = (t := m[0])[t.startswith(b'/'): -1].decode()
        renv = json_loads(m[1].decode())
        out[rtopic] = [renv.get('xtra'), *m[2:]]
    return out


# ---------------------------------------------------------------------------------------------------------------------
# the oracle: the property's own formula on the real result

def mae(a, b):
    np = _np()
    return float(np.abs(a.astype(np.int32) - b.astype(np.int32)).mean())


_TOL_CACHE = {}


def jpeg_tolerance(px):
    """(bound on the mean absolute error, OpenCV's own default round trip) for the sender's pixels px."""
    key = (px.shape, hashlib.md5(px.tobytes()).digest())
    if key not in _TOL_CACHE:
        gray = px.ndim == 2
        ref95 = decode_ref(jpg_of(px), gray)
        ref50 = decode_ref(jpg_of(px, 50), gray)
        _TOL_CACHE[key] = (2 * max(mae(ref95, px), mae(ref50, px)) + 4.0, ref95)
    return _TOL_CACHE[key]


def strict_equal(a, b):
    if type(a) is not type(b):
        return False
    if isinstance(a, dict):
        return a.keys() == b.keys() and all(strict_equal(a[k], b[k]) for k in a)
    if isinstance(a, list):
        return len(a) == len(b) and all(strict_equal(x, y) for x, y in zip(a, b))
    if isinstance(a, float):
        return a == b and str(a) == str(b)
    return a == b


def sent_as(msg, y, mode):
    """How the image was actually sent: read from the real envelope, else from what arrived, else the reference."""
    try:
        enc = msg[0]['img'][3]
        if enc in ('raw', 'jpg'):
            return enc
    except Exception:
        pass
    try:
        return 'jpg' if y.has_jpg else 'raw'
    except Exception:
        return 'raw' if mode == 'identical' else 'jpg'


def judge_frame(info, msg, y):
    """Violations of C09 for one topic: list of (kind, text).  `info` = the sender's frame as observed before sending."""
    np = _np()
    out = []
    if y.data != info['data']:
        out.append(('data', f'data differs: sent {info["data"]!r:.200} got {y.data!r:.200}'))
    if bool(y.has_image) != info['has_image']:
        out.append(('presence', f'image presence differs: sent has_image={info["has_image"]} got {bool(y.has_image)}'))
        return out
    if not info['has_image']:
        return out
    if (y.height, y.width, y.format) != (info['h'], info['w'], info['fmt']):
        out.append(('declared', f'height/width/format differ: sent {(info["h"], info["w"], info["fmt"])} got '
                    f'{(y.height, y.width, y.format)}'))
    want_shape = (info['h'], info['w']) if info['fmt'] == 'GRAY' else (info['h'], info['w'], 3)
    jpg_before_image = bytes(y.jpg) if y.has_jpg else None      # before .image, which never changes it
    try:
        img = y.image
    except Exception as e:
        out.append(('shape', f'the received image cannot be decoded to the declared shape: {type(e).__name__}: {e}'))
        return out
    if not isinstance(img, np.ndarray) or img.shape != tuple(want_shape) or img.dtype != np.uint8:
        out.append(('shape', f'decoded image has shape {getattr(img, "shape", None)} dtype {getattr(img, "dtype", None)}'
                    f', declared {tuple(want_shape)}'))
        return out
    px = info['px']
    how = sent_as(msg, y, info.get('mode'))
    if how == 'raw':
        if not np.array_equal(img, px):
            out.append(('raw_pixels', f'image sent raw is not pixel-identical ({int((img != px).sum())} of {px.size} '
                        f'values differ, mae {mae(img, px):.2f})'))
    else:
        bound, ref95 = jpeg_tolerance(px)
        err = mae(img, px)
        if info['has_jpg']:
            # kept byte for byte: the jpg the receiver holds; if it holds none (a decoder that keeps pixels only), the
            # image part that was on the wire
            try:
                got = jpg_before_image if jpg_before_image is not None else bytes(msg[1])
            except Exception:
                got = b''
            if got != info['jpg']:
                out.append(('jpg_bytes', f'an existing jpg encoding ({len(info["jpg"])} bytes) was not kept byte for '
                            f'byte ({"received" if jpg_before_image is not None else "on the wire"}: {len(got)} bytes)'))
            if err > bound:
                out.append(('stale_jpg', f'the kept jpg encoding does not show the sender\'s image: mae {err:.2f} > '
                            f'{bound:.2f}'))
        elif err > bound:
            out.append(('jpg_tolerance', f'image sent as JPEG is not within JPEG tolerance of the original: mae '
                        f'{err:.2f} > {bound:.2f} (OpenCV\'s own round trip: {mae(ref95, px):.2f})'))
    return out


def conformance(t, info, msg, x, ystate, transport):
    """Differences from the reference specification's expectation (never a verdict): list of strings."""
    np = _np()
    e = t.get('expect')
    if not e:
        return []
    d = []
    env = [] if msg[0] is None else (msg[0].get('img') if isinstance(msg[0], dict) else msg[0])
    want_env = [{'H': info['h'], 'W': info['w']}.get(v, v) for v in e['env']]
    if list(env or []) != want_env:
        d.append(f'envelope {msg[0]!r} where the reference has {want_env}')
    if len(msg) - 1 != e['nparts']:
        d.append(f'{len(msg) - 1} parts after the envelope where the reference has {e["nparts"]}')
    elif e['bytes'] != 'none':
        part = bytes(msg[1])
        if e['bytes'] == 'raw_pixels' and part != info['px'].tobytes():
            d.append('image part is not the C-order pixel bytes')
        if e['bytes'] == 'cached_jpg' and part != info['jpg']:
            d.append('image part is not the cached jpg')
        if e['bytes'] == 'fresh_jpg' and part != jpg_of(info['px']):
            d.append('image part is not OpenCV\'s default jpg encoding of the pixels')
    if e['datapart'] != (len(msg) - 1 > (0 if msg[0] is None else 1)):
        d.append(f'data part present={not e["datapart"]} where the reference has {e["datapart"]}')
    pre = e['x_pre']
    if (pre['img'] != 'none', pre['jpg'] == 'yes', pre['img'] == 'arr') != (info['has_image'], info['has_jpg'],
                                                                           info['has_raw']):
        d.append(f'frame kind {t["kind"]} is in state has_image/has_jpg/has_raw={info["has_image"]}/{info["has_jpg"]}/'
                 f'{info["has_raw"]} before sending, the reference has {pre}')
    post = e['x_post']
    if (post['jpg'] == 'yes', post['img'] == 'arr') != (bool(x.has_jpg), bool(x.has_raw)):
        d.append(f'sender frame after encoding has_jpg/has_raw={bool(x.has_jpg)}/{bool(x.has_raw)}, the reference has '
                 f'{post}')
    try:
        if info['has_image'] and x.has_image and not np.array_equal(x.image, info['px']):
            d.append('encoding changed the sender frame\'s pixels')
    except Exception as e_:        # noqa - the sender frame's own image cannot be had (an observation of the code under test)
        d.append(f'the sender frame\'s image raises {type(e_).__name__}: {str(e_)[:120]}')
    ey = e['y']
    if ystate is not None and (ey['jpg'] == 'yes', ey['img'] == 'arr') != ystate:
        d.append(f'received frame has_jpg/has_raw={ystate[0]}/{ystate[1]}, the reference has {ey}')
    return d


def run_case(case, pair=None, tamper=None):
    """Execute one concrete case = {oj, topics: [descriptor...]} through every transport.
    Returns (violations [(kind, text, transport, topic)], drift [str], facts)."""
    from openfilter.filter_runtime.mq import MQ
    np = _np()
    frames, infos = {}, {}
    for t in case['topics']:
        try:
            x, info = build_frame(t)
        except MachineryError:
            raise
        except Exception as e:      # raised by the code under test on a frame of the quantified domain
            return [('exception', f'building the {t["kind"]} {t["fmt"]} {t["h"]}x{t["w"]} frame raised '
                     f'{type(e).__name__}: {e}', 'direct', t['topic'])], [], {}
        info['mode'] = (t.get('expect') or {}).get('mode')
        frames[t['topic']], infos[t['topic']] = x, info
    if tamper:
        tamper(infos)
    viol, drift = [], []
    try:
        tms = MQ.frames2topicmsgs(frames, OJ[case['oj']])
    except Exception as e:
        return [('exception', f'frames2topicmsgs raised {type(e).__name__}: {e}', 'direct', '*')], drift, {}
    transports = case.get('transports') or TRANSPORTS
    for tr in transports:
        try:
            wired = tms if tr == 'direct' else over_wire(tms, pair if tr == 'zmq' else None)
        except MachineryError:
            raise
        except Exception as e:
            viol.append(('exception', f'the encoded messages cannot be framed for the wire: {type(e).__name__}: {e}', tr,
                         '*'))
            continue
        try:
            ys = MQ.topicmsgs2frames(wired)
        except Exception as e:
            viol.append(('exception', f'topicmsgs2frames raised {type(e).__name__}: {e}', tr, '*'))
            continue
        ystate = {k: (bool(y.has_jpg), bool(y.has_raw)) for k, y in ys.items()}   # before the oracle decodes anything
        if list(ys) != list(frames):
            viol.append(('topics', f'topics differ: sent {list(frames)} got {list(ys)}', tr, '*'))
        for t in case['topics']:
            name = t['topic']
            if name not in ys:
                continue
            try:
                verdicts = judge_frame(infos[name], wired.get(name, [None]), ys[name])
            except MachineryError:
                raise
            except Exception as e:
                verdicts = [('exception', f'the received frame cannot be inspected: {type(e).__name__}: {e}')]
            for kind, text in verdicts:
                viol.append((kind, text, tr, name))
            if not strict_equal(ys[name].data, infos[name]['data']) and ys[name].data == infos[name]['data']:
                drift.append(f'data equal but not type-identical for {infos[name]["data"]!r:.120}')
            if tr == 'direct':
                drift += [f'{t["kind"]}/{t["fmt"]}/oj={case["oj"]}: {s}'
                          for s in conformance(t, infos[name], tms[name], frames[name], ystate.get(name), tr)]
    return viol, drift, {'msgs': {k: [m[0]] + [len(p) for p in m[1:]] for k, m in tms.items()}}


# ---------------------------------------------------------------------------------------------------------------------
# data values

def random_json(r, depth=0):
    k = r.random()
    if depth >= 4 or k < 0.55:
        return r.choice([
            None, True, False, 0, 1, -1, 255, 2 ** 31, -2 ** 31 - 1, 2 ** 53 + 1, 2 ** 64, 10 ** 30, -10 ** 100,
            0.1, -0.0, 1e308, 5e-324, 1.5e-7, 3.141592653589793, 1e16, 123456789.12345679, -2.5e-300,
            '', 'a', 'main', 'ü', '日本語', '😀', 'mixed ü日😀 text', '\n\t\x00', '"\\', '\u2028\u2029',
            'x' * r.randint(0, 300), r.randint(-10 ** 18, 10 ** 18), r.random() * 10 ** r.randint(-20, 20),
        ])
    if k < 0.78:
        return [random_json(r, depth + 1) for _ in range(r.randint(0, 4))]
    return {r.choice(['', 'a', 'id', 'meta', 'ü', '日本', 'k' + str(r.randint(0, 99)), '😀', 'a b', '0']):
            random_json(r, depth + 1) for _ in range(r.randint(0, 4))}


def random_data(r):
    while True:
        d = {r.choice(['meta', 'a', 'dets', 'ü', '', 'k' + str(r.randint(0, 9))]): random_json(r, 1)
             for _ in range(r.randint(1, 4))}
        if d:
            return d


# ---------------------------------------------------------------------------------------------------------------------

def concretise(v, vi, combo, r):
    """Vector v (abstract case) -> concrete case for the (size index, layout index) `combo`."""
    si, li = combo
    topics = []
    for k, t in enumerate(v['topics']):
        h, w = SIZES[(si + k) % len(SIZES)]
        layout = LAYOUTS[(li + k) % len(LAYOUTS)]
        if layout == 'poked' and t['kind'] not in ('rw', 'rocached'):
            layout = 'contig'
        data = {} if t['data'] == 'empty' else (FIXED_DATA[(vi + si + li + k) % len(FIXED_DATA)]
                                                if (vi + k + li) % 3 else random_data(r))
        topics.append({'topic': t['topic'], 'kind': t['kind'], 'fmt': t['fmt'], 'data': data, 'h': h, 'w': w,
                       'layout': layout, 'blob': BLOBS[(li + k + vi) % len(BLOBS)], 'seed': (vi + k) % 5,
                       'expect': t['expect']})
    return {'oj': v['oj'], 'topics': topics}


def witness_of(case, viol, facts):
    c = {'oj': case['oj'], 'topics': [{k: v for k, v in t.items() if k != 'expect'} for t in case['topics']]}
    return {'case': c, 'expected_modes': [(t.get('expect') or {}).get('mode') for t in case['topics']],
            'violations': [{'kind': k, 'what': s, 'transport': tr, 'topic': tp} for k, s, tr, tp in viol],
            'wire': facts.get('msgs')}


def report(rep, case, viol, facts):
    byk = {}
    for v in viol:
        byk.setdefault((v[0], v[3]), v)
    for (kind, topic), (k, text, tr, tp) in byk.items():
        t = next((t for t in case['topics'] if t['topic'] == tp), None)
        sig = {'kind': kind, 'frame_kind': t and t['kind'], 'fmt': t and t['fmt'], 'oj': case['oj'],
               'mode': t and (t.get('expect') or {}).get('mode')}
        where = f'topic {tp!r} ({t["kind"]} {t["fmt"]} {t["h"]}x{t["w"]} {t["layout"]})' if t else 'frame set'
        rep.violation(f'outs_jpg={case["oj"]} {where} via {tr}: {text}', witness_of(case, viol, facts), sig)


def selftest():
    """The oracle must notice a corrupted expectation: flip one expected value per law and require the matching
    violation.  A case the code under test already fails untampered is inconclusive and skipped (run() reports it).
    Returns the number of conclusive self-tests."""
    np = _np()
    base = {'topic': 'main', 'h': 7, 'w': 9, 'layout': 'rowstep', 'blob': 'bytes', 'seed': 1, 'data': {'a': [1, 'ü']}}

    def one(kind, fmt, oj, tamper, want):
        case = {'oj': oj, 'topics': [dict(base, kind=kind, fmt=fmt)]}
        if run_case(case)[0]:
            return 0            # the code under test already fails this case: inconclusive here, reported by run()
        viol, _, _ = run_case(case, tamper=tamper)
        kinds = {v[0] for v in viol}
        if want not in kinds:
            raise MachineryError(f'self-test: corrupted expectation ({want}) on {kind}/{fmt}/outs_jpg={oj} was not '
                                 f'noticed by the oracle (got {sorted(kinds)})')
        return 1

    def flip_px(infos):
        infos['main']['px'][0, 0] ^= 1

    def flip_data(infos):
        infos['main']['data'] = {'a': [1, 'u']}

    def flip_h(infos):
        infos['main']['h'] += 1

    def flip_presence(infos):
        infos['main']['has_image'] = False

    def flip_jpg(infos):
        if infos['main']['jpg'] is None:
            raise MachineryError('self-test: the jpg-backed frame of the self-test holds no jpg')
        infos['main']['jpg'] = infos['main']['jpg'][:-3] + b'\x00' + infos['main']['jpg'][-2:]

    def far_px(infos):
        infos['main']['px'] = np.ascontiguousarray(infos['main']['px'][::-1, ::-1])

    n = 0
    n += one('rw', 'BGR', 'False', flip_px, 'raw_pixels')
    n += one('ro', 'GRAY', 'None', flip_px, 'raw_pixels')
    n += one('jpgonly', 'RGB', 'False', flip_px, 'raw_pixels')
    n += one('rw', 'RGB', 'None', flip_data, 'data')
    n += one('none', 'NONE', 'True', flip_data, 'data')
    n += one('rw', 'GRAY', 'True', flip_h, 'declared')
    n += one('ro', 'BGR', 'False', flip_h, 'declared')
    n += one('rw', 'BGR', 'True', flip_presence, 'presence')
    n += one('jpgonly', 'BGR', 'None', flip_jpg, 'jpg_bytes')
    n += one('rocached', 'GRAY', 'True', flip_jpg, 'jpg_bytes')
    big = dict(base, h=48, w=64)
    for kind, want in (('rw', 'jpg_tolerance'), ('jpgdec', 'stale_jpg')):
        case = {'oj': 'True', 'topics': [dict(big, kind=kind, fmt='BGR')]}
        if run_case(case)[0]:
            continue
        viol, _, _ = run_case(case, tamper=far_px)
        if want not in {v[0] for v in viol}:
            raise MachineryError(f'self-test: a flipped picture passed the JPEG tolerance predicate ({want})')
        n += 1
    return n


def spec_defect_runs(rep, workers):
    """Codec.tla with one hypothetical defect switched on: TLC must report the named law violated (non-vacuity)."""
    base = open(os.path.join(SPEC_DIR, 'Codec_quick.cfg')).read()
    tmp = tempfile.mkdtemp(prefix='c09cfg_')
    results = {}

    def one(d):
        p = os.path.join(tmp, f'Codec_defect_{d}.cfg')
        with open(p, 'w') as fh:
            fh.write(base.replace('Defects = {}', 'Defects = {"%s"}' % d).replace('MaxFree = 2', 'MaxFree = 1')
                     .replace('MaxTopics = 4', 'MaxTopics = 1'))
        results[d] = run_tlc(SPEC_DIR, p, 'Codec', workers=workers, timeout=600)

    try:
        ths = [threading.Thread(target=one, args=(d,)) for d in DEFECT_EXPECT]
        [t.start() for t in ths]
        [t.join() for t in ths]
    finally:
        import shutil
        shutil.rmtree(tmp, ignore_errors=True)
    for d, res in sorted(results.items()):
        if res.error or res.timed_out:
            raise MachineryError(f'TLC failed on Codec with defect {d}: {res.error or "timeout"}')
        if res.violated not in DEFECT_EXPECT[d]:
            raise MachineryError(f'Codec.tla with Defects={{{d}}}: expected TLC to report one of '
                                 f'{sorted(DEFECT_EXPECT[d])} violated, got {res.violated!r} - the law is vacuous')
        rep.tlc_runs.append({'config': f'Codec_quick[Defects={{{d}}},MaxFree=1,MaxTopics=1]',
                             'distinct_states': res.distinct, 'states_generated': res.states, 'depth': res.depth,
                             'wall_s': res.wall_s, 'result': f'{res.violated} violated (expected)',
                             'purpose': 'non-vacuity: the law rejects the hypothetical deviation'})


def run(ctx):
    common.use_repo()
    np = _np()
    rep = Report(ctx)
    rep.rule = ('case = (abstract frame set from Codec.tla, outs_jpg, size, memory layout / blob type, data value, '
                'transport); distinct = distinct (vector, size index, layout index); non-trivial = the set has at '
                'least one topic')
    rep.assumptions = [
        'data values are JSON dictionaries with string keys, finite floats and well-formed Unicode strings (NaN/Infinity, '
        'tuples, non-string keys, lone surrogates are not JSON values and outside the quantifier); integers below Python\'s 4300-digit str limit',
        'jpg-backed input frames are well formed: the blob is a baseline JPEG of the declared height/width and '
        'colour-ness (as produced by Frame.jpg / cv2.imencode)',
        'JPEG numerics are not decided by Codec.tla (uninterpreted JpegClose); the harness evaluates: mean abs error '
        'vs the sender\'s pixels <= 2 x OpenCV\'s own round-trip error (quality 95 and 50) + 4',
        'the wire is zeromq.py\'s framing statements replayed on the encoded messages (json_dumps of the envelope '
        'with xtra, byte parts), plus a real zmq inproc PAIR for a sample; sockets, ids and the request protocol are '
        'C01-C07\'s business',
    ]
    n_self = rep.selftest(selftest)
    cfg = 'Codec_quick' if ctx.quick else 'Codec_thorough'
    res, data = tlc_emit_json(SPEC_DIR, cfg, module='Codec', timeout=3000)
    tlc_must_pass(res, cfg)
    rep.add_tlc(cfg, res, 'round-trip laws (topics, no error, data, presence, declared h/w/format, raw identity, jpg '
                          'kept, jpg lossy, decode shape, sender unchanged, envelope, mode) on every frame set; vectors')
    spec_defect_runs(rep, workers=2 if ctx.quick else 4)
    vectors = sorted(data['vectors'], key=lambda v: json.dumps(v, sort_keys=True))
    r = common.rng(ctx)
    counts = {'mode': {}, 'kind': {}, 'size': {}, 'layout': {}, 'transport': {}, 'oj': {}, 'ntopics': {}, 'fmt': {}}

    def bump(k, v):
        counts[k][str(v)] = counts[k].get(str(v), 0) + 1

    pair = ZmqPair()
    seen_drift = set()
    try:
        for vi, v in enumerate(vectors):
            if ctx.quick:
                combos = [((vi * 3 + j) % len(SIZES), (vi + 3 * j) % len(LAYOUTS)) for j in range(3)]
            else:
                combos = [(si, li) for si in range(len(SIZES)) for li in range(len(LAYOUTS))]
            for ci, combo in enumerate(combos):
                case = concretise(v, vi, combo, r)
                use_zmq = (vi + ci) % (8 if ctx.quick else 3) == 0
                case['transports'] = TRANSPORTS + (('zmq',) if use_zmq else ())
                viol, drift, facts = run_case(case, pair)
                rep.case((vi, combo), nontrivial=bool(v['topics']))
                rep.traces += len(case['transports'])
                bump('oj', v['oj'])
                bump('ntopics', len(v['topics']))
                for tr in case['transports']:
                    bump('transport', tr)
                for t in case['topics']:
                    bump('mode', t['expect']['mode'])
                    bump('kind', t['kind'])
                    bump('fmt', t['fmt'])
                    if t['kind'] != 'none':
                        bump('size', f'{t["h"]}x{t["w"]}')
                        bump('layout', t['layout'] if t['kind'] in ('rw', 'ro', 'rocached') else 'blob:' + t['blob'])
                if vi % 211 == 0 and ci == 0 and v['topics']:
                    rep.sample({'oj': v['oj'], 'topics': [{k: (str(x)[:80] if k == 'data' else x) for k, x in t.items()
                                                           if k != 'expect'} | {'mode': t['expect']['mode']}
                                                          for t in case['topics']], 'wire': facts.get('msgs'),
                                'violations': len(viol)})
                if viol:
                    report(rep, case, viol, facts)
                for s in drift:
                    if s not in seen_drift and len(seen_drift) < 40:
                        seen_drift.add(s)
                        rep.drift_note(s)
        # large pictures, single-frame cases only
        bigs = [(481, 641)] if ctx.quick else [(481, 641), (1080, 1920), (2, 4099)]
        singles = [v for v in vectors if len(v['topics']) == 1 and v['topics'][0]['kind'] != 'none']
        for bi, v in enumerate(singles):
            if ctx.quick and bi % 6:
                continue
            for (h, w) in bigs:
                case = concretise(v, bi, (0, bi % len(LAYOUTS)), r)
                case['topics'][0].update(h=h, w=w)
                case['transports'] = TRANSPORTS + (('zmq',) if bi % 4 == 0 else ())
                viol, drift, facts = run_case(case, pair)
                rep.case(('big', bi, h, w))
                rep.traces += len(case['transports'])
                t = case['topics'][0]
                bump('size', f'{h}x{w}')
                bump('mode', t['expect']['mode'])
                bump('kind', t['kind'])
                if viol:
                    report(rep, case, viol, facts)
                for s_ in drift:
                    if s_ not in seen_drift and len(seen_drift) < 40:
                        seen_drift.add(s_)
                        rep.drift_note(s_)
        # many data values: data-only frames and data riding on an image, every outs_jpg
        ndata = 400 if ctx.quick else 10000
        rd = common.rng(ctx, 'data')
        for i in range(ndata):
            d = random_data(rd)
            oj = ('None', 'True', 'False')[i % 3]
            topics = [{'topic': 'main', 'kind': 'none', 'fmt': 'NONE', 'data': d, 'h': 1, 'w': 1, 'layout': 'contig',
                       'blob': 'bytes', 'seed': i % 5}]
            if i % 4 == 0:
                topics.append({'topic': '_x', 'kind': ('rw', 'jpgonly', 'ro')[i % 3], 'fmt': ('BGR', 'GRAY', 'RGB')[i % 3],
                               'data': d, 'h': 3, 'w': 5, 'layout': 'colstep', 'blob': 'bytearray', 'seed': i % 5})
            case = {'oj': oj, 'topics': topics, 'transports': TRANSPORTS + (('zmq',) if i % 16 == 0 else ())}
            viol, drift, facts = run_case(case, pair)
            rep.case(('data', i))
            rep.traces += len(case['transports'])
            bump('mode', 'data_value')
            if viol:
                report(rep, case, viol, facts)
    finally:
        pair.close()
    for mode in ('no_image', 'identical', 'jpg_bytes_identical', 'jpg_lossy'):
        if not counts['mode'].get(mode):
            raise MachineryError(f'vacuous run: no case of mode {mode} was executed')
    for kind in ('none', 'rw', 'ro', 'jpgonly', 'jpgdec', 'rocached', 'decrw'):
        if not counts['kind'].get(kind):
            raise MachineryError(f'vacuous run: no frame of kind {kind} was executed')
    rep.extra['cases_per_branch'] = counts
    rep.extra['vectors'] = len(vectors)
    rep.extra['oracle_selftests'] = n_self
    rep.exhaustive = not ctx.quick
    return rep.finish()


def replay(ctx):
    common.use_repo()
    w = json.load(open(ctx.replay))
    case = w['witness']['case']
    print(json.dumps({'case': case, 'recorded': w['witness']['violations']}, indent=1, default=str)[:6000])
    pair = ZmqPair()
    try:
        case['transports'] = TRANSPORTS + ('zmq',)
        viol, drift, facts = run_case(case, pair)
    finally:
        pair.close()
    for k, text, tr, tp in viol:
        print(f'  still violated [{k}] topic {tp!r} via {tr}: {text}')
    if viol:
        print(f'VIOLATION property={ctx.prop} replay={ctx.replay}')
        return 1
    print(f'{ctx.prop}: the recorded witness no longer violates the property')
    return 0

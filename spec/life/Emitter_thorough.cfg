CONSTANTS
  Defects = {}
  MaxCalls = 13
  MaxRuns = 3
SPECIFICATION Spec
INVARIANT C18_Emitter
INVARIANT C18_Terminated
INVARIANT TypeOK

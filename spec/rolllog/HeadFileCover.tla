--------------------------- MODULE HeadFileCover ---------------------------
(* spec -> code binding for C14, as RollLogCover for C13: HeadFile plus the history variable `path`; HEmit prints, for
   every transition, the label path ending with it and the projection HObs of the target state (the head file, the
   temp file, the directory, the reader).  vlib/c14.py replays the maximal paths on a real RollLog(head=...) with
   crashes injected at the file-system operations of write_head. *)
EXTENDS HeadFile
VARIABLE path
HObs ==
  LET sc == ScanLF IN
  [dir |-> [i \in 1..Len(sc) |-> [ts |-> sc[i].ts, c |-> data[dir[sc[i].ts]]]],
   chunk |-> ev.chunk, head |-> [st |-> head.st, k |-> head.p.k, ts |-> head.p.ts, off |-> head.p.off],
   tmp |-> [st |-> tmp.st, k |-> tmp.p.k, ts |-> tmp.p.ts, off |-> tmp.p.off],
   up |-> up, ok |-> hev.ok,
   r |-> [lf |-> lf[R], ridx |-> ridx[R], open |-> rf[R].ino # 0, off |-> rf[R].off]]
HInitC == HInit /\ path = << <<"init", W, fsz, tsz>> >>
HNextC == \E l \in HLabels : HNextL(l) /\ path' = Append(path, <<l.a, l.o, l.x, l.y>>)
HSpecC == HInitC /\ [][HNextC]_<<allvars, path>>
HEmit  == PrintT(ToString(<<path', HObs'>>))
=============================================================================

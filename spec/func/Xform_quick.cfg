CONSTANTS
  MaxDim = 6
  MaxBound = 7
  MaxImg = 3
  Chain3Fmt = FALSE
  Defects = {}
  AsIs = {"float_scale"}
INIT Init
NEXT Next
INVARIANT InvNoFail
INVARIANT InvResizeExact
INVARIANT InvVResizeFit
INVARIANT InvMaxBound
INVARIANT InvMaxNoEnlarge
INVARIANT InvMinBound
INVARIANT InvMinNoShrink
INVARIANT InvAspectX
INVARIANT InvIndependentPlus
INVARIANT InvPermutation
INVARIANT InvFmtKeepsSize
INVARIANT InvBox
INVARIANT InvAlgebra

\* facet "ports": allocation above the highest user-given output port in steps of two; exhaustive for 1-3 filters
CONSTANTS
  Sizes = {1, 2, 3}
  IpcModes = {FALSE}
  Names = {"Util"}
  GivenIds = {}
  NumIds = {}
  SrcForms = {"absent", "ref"}
  RefSuffixes = {""}
  AddrSuffixes = {""}
  UriSuffixes = {""}
  SrcHosts = {"localhost"}
  SrcPorts = {5552}
  OutForms = {"absent", "tcp"}
  OutHosts = {"127.0.0.1"}
  Ports = {0, 1024, 5548, 5549, 5551, 5553, 64998, 65000}
  IpcNames = {"pipe"}
  Extras = {""}
  Defects = {"assign_empty_ignored"}
INIT Init
NEXT Next
INVARIANT TypeOK
INVARIANT ErrorsJustified
INVARIANT DesignUniqueIds
INVARIANT DesignEverySourceBound
INVARIANT DesignPortsDisjoint
INVARIANT DesignPassThrough
INVARIANT DesignEmptyRespected
INVARIANT AsIsUniqueIds
INVARIANT AsIsEverySourceBound
INVARIANT AsIsPortsDisjoint
INVARIANT AsIsPassThrough

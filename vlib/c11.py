"""C11 - configuration normalisation is idempotent; text form equals structured form; parse is the inverse of render.

Specification: spec/func/ConfigGrammar.tla - the documented compact text syntax as an abstract syntax with `Render`, and
reference `SplitCommasMaybe` / `ParseOptions` / `ParseTopics` / per-filter normalisers written branch by branch like
the code.  TLC runs four case-state spaces (one state per case, laws as invariants):

  topics   Parse(Render(x)) = x for every valid list of topic mappings in every text form and white-space class
  options  the same for option lists / addresses with '!' in passwords, alone and followed by a topic (entry level)
  config   for Filter, Util, Recorder, VideoIn, VideoOut, ImageIn, ImageOut: 1-4 entries; text form == list form ==
           structured form on the reference normaliser, and the reference normaliser is idempotent
  proto    Webvis / REST / MQTTOut, which have their own address grammar

and a fifth run with the defect switch on, which must exhibit the counterexample.  Every case is serialised and executed
against the real `Filter.parse_topics`, `Filter.parse_options` and the real `normalize_config` of the ten classes; the
property's own formulas (round trip, idempotence, text == structured) are evaluated on the real results.  Differences
from the reference that do not falsify a formula are drift notes only.
"""
import contextlib
import copy
import io
import json
import os
import re
from concurrent.futures import ThreadPoolExecutor

from . import common
from .common import Report, run_tlc, tlc_emit_json, tlc_must_pass, MachineryError, SPEC

SPEC_DIR = os.path.join(SPEC, 'func')
DEFECT = 'C11_opt_ws_before_eq'
GLOBAL_SEPS = ';>!=,'
WS_STYLES = (' ', '  ')                 # a white-space run is rendered as one or as two blanks
RE_IDENT = re.compile(r'[a-zA-Z_]\w*')
W_NAMES = ('comma', 'semi', 'gt', 'bang', 'eqL', 'eqR', 'edge')

# ---------------------------------------------------------------------------------------------------------------------
# text layer: tokens -> characters

def render(tokens, style=0):
    ws = WS_STYLES[style]
    return ''.join(ws if t == ' ' else t for t in tokens)


def check_tokens(tokens, ident, where):
    """The token discipline that makes the token-level reference equal to the character-level code (spec header)."""
    prev_word = False
    prev = None
    for t in tokens:
        if t == ' ' or (len(t) == 1 and t in GLOBAL_SEPS + '/:()|'):
            prev_word, prev = False, t
            continue
        if t == '':
            raise MachineryError(f'empty token in {where}: {tokens}')
        if any(c in t for c in GLOBAL_SEPS) or t != t.strip():
            raise MachineryError(f'word {t!r} contains a separator or edge white space in {where}: {tokens}')
        if prev_word and prev != 'no-' and prev not in ('http://', 'mqtt://'):
            raise MachineryError(f'adjacent words {prev!r} {t!r} in {where}: {tokens}')
        if t != 'no-' and bool(RE_IDENT.fullmatch(t)) != (t in ident):
            raise MachineryError(f'word {t!r}: Ident table of the specification disagrees with the identifier pattern')
        prev_word, prev = True, t


# the JSON meaning of value texts (json_getval: "try to dejsonify, otherwise return string as is"), declared here
# independently of the code under test; keys are white-space-normalised
PYVAL = {
    '1': 1, '1.5': 1.5, 'true': True, 'null': None, 'hello': 'hello', '"3"': '3', '[1]': [1], '[1, 2]': [1, 2],
    '{"k": 1}': {'k': 1}, 'scale=1280:720': 'scale=1280:720', '*.jpg': '*.jpg', '': '', 'he llo': 'he llo',
    '3': 3, '10': 10, '1280x720': '1280x720', '1280+720C': '1280+720C', '1280x720lin': '1280x720lin',
    '1280+720': '1280+720', 'us-west-2': 'us-west-2', '7200': 7200, '25': 25, '180': 180, '0.5': 0.5, '5:00': '5:00',
    '{"crf": 23}': {'crf': 23}, '{"crf": 23, "g": 30}': {'crf': 23, 'g': 30}, '30': 30, '1.0': 1.0, 'png': 'png',
    'jpg': 'jpg', '95': 95, '6': 6, '0': 0, '1@h/s': '1@h/s',
}
STR_KEEPS_WS = {'he llo'}      # string values keep their inner white space exactly as written


def pyval(tokens, style=0):
    text = render(tokens, style)
    key = re.sub(r'\s+', ' ', text)
    if key not in PYVAL:
        raise MachineryError(f'value text {text!r} has no declared meaning in c11.PYVAL')
    v = PYVAL[key]
    return text if key in STR_KEEPS_WS else fcopy(v)


def opts_dict(opts, style=0):
    """[{k, kind, v}] (abstract options) -> the dict parse_options is documented to return."""
    d = {}
    for o in opts:
        name = ''.join(o['k'])
        d[name] = True if o['kind'] == 'true' else False if o['kind'] == 'false' else pyval(o['v'], style)
    return d


def fcopy(o):
    """Deep copy of the plain containers configurations are made of (dict/list/tuple and their subclasses such as
    FilterConfig/adict); everything else is immutable here.  copy.deepcopy is five times slower."""
    t = type(o)
    if t is dict:
        return {k: fcopy(v) for k, v in o.items()}
    if t is list:
        return [fcopy(v) for v in o]
    if t is tuple:
        return tuple(fcopy(v) for v in o)
    if isinstance(o, dict):
        return t({k: fcopy(v) for k, v in o.items()})
    if isinstance(o, list):
        return t(fcopy(v) for v in o)
    return o


def wdict(bits):
    return dict(zip(W_NAMES, bits))


@contextlib.contextmanager
def quiet():
    """parse_topics print()s its argument before raising; keep the check's stdout clean."""
    buf = io.StringIO()
    with contextlib.redirect_stdout(buf):
        yield buf


def call(fn, *a, **k):
    try:
        with quiet():
            return ('ok', fn(*a, **k))
    except MachineryError:
        raise
    except Exception as ex:          # an exception of the code under test is an observation, judged by the formula
        return ('raised', f'{type(ex).__name__}: {ex}')


# ---------------------------------------------------------------------------------------------------------------------
# grammar level: Filter.parse_topics / Filter.parse_options on the rendered text

def expect_topics(x, style):
    pairs = [(m['src'], m['dst']) for m in x['maps']]
    return (render(x['addr'], style), pairs if pairs else None)


def expect_options(x, style):
    return (render(x['addr'], style), opts_dict(x['opts'], style))


def expect_entry(x, style):
    return (render(x['addr'], style), x['maps'][0]['dst'] if x['maps'] else None, opts_dict(x['opts'], style))


def real_entry(Filter, text):
    """The composition every one-topic filter uses (video_in.py:700-701): parse_topics(.., 1, False), parse_options."""
    src, topic = Filter.parse_topics(text, 1, False)
    src, options = Filter.parse_options(src)
    return (src, topic and topic[0], options)


def eval_grammar(case, Filter):
    """case: {mode, x, w(bits), t(tokens), style}.  Returns {ok, text, real, expect}: ok = the round-trip formula."""
    style = case.get('style', 0)
    text = render(case['t'], style)
    x = case['x']
    if case['mode'] == 'topics':
        expect = expect_topics(x, style)
        real = call(Filter.parse_topics, text)
    elif not x['maps']:
        expect = expect_options(x, style)
        real = call(Filter.parse_options, text)
    else:
        expect = expect_entry(x, style)
        real = call(real_entry, Filter, text)
    if real[0] == 'ok' and case['mode'] == 'topics' and isinstance(real[1][1], (list, tuple)):
        real = ('ok', (real[1][0], [tuple(p) for p in real[1][1]]))       # pairs as tuples or as lists: both fine
    ok = real[0] == 'ok' and tuple(real[1]) == expect
    if ok and case['mode'] != 'topics':
        # the value belongs to the caller (normalisers merge options into it in place): after the caller has written into
        # it, parsing the same text again must still give the rendered value
        scribble(real[1])
        again = call(Filter.parse_options if not x['maps'] else (lambda t: real_entry(Filter, t)), text)
        if not (again[0] == 'ok' and tuple(again[1]) == expect):
            return {'ok': False, 'text': text, 'real': again, 'expect': expect,
                    'note': 'second parse of the same text, after the caller modified the first result in place'}
    return {'ok': ok, 'text': text, 'real': real, 'expect': expect}


def scribble(o, _depth=0):
    """write into every mutable container reachable from o (what a caller that owns the value may do)"""
    if isinstance(o, dict):
        for v in list(o.values()):
            scribble(v, _depth + 1)
        if _depth:
            o['__scribbled__'] = 1
    elif isinstance(o, list):
        for v in o:
            scribble(v, _depth + 1)
        if _depth:
            o.append('__scribbled__')
    elif isinstance(o, tuple):
        for v in o:
            scribble(v, _depth + 1)


def without_eql(case):
    """The same abstract case rendered without white space before '=' (differential for the known defect)."""
    c = copy.deepcopy(case)
    out, toks = [], c['t']
    for i, t in enumerate(toks):
        if t == ' ' and i + 1 < len(toks) and toks[i + 1] == '=' and i > 0 and RE_IDENT.fullmatch(toks[i - 1]):
            continue
        out.append(t)
    c['t'] = out
    c['w'] = [b if n != 'eqL' else False for n, b in zip(W_NAMES, c['w'])]
    return c


# ---------------------------------------------------------------------------------------------------------------------
# configuration level

XFORMS = {   # the structured form of each xform text (util.py docstring; tests/test_filter_util.py)
    'flipx': {'action': 'flipx'}, 'flipy': {'action': 'flipy'}, 'fmtgray': {'action': 'fmtgray'},
    'rotcw': {'action': 'rotcw'}, 'rotccw': {'action': 'rotccw'},
    'resize 123x456': {'action': 'resize', 'width': 123, 'height': 456},
    'maxsize 321 + 654 lin': {'action': 'maxsize', 'width': 321, 'height': 654, 'aspect': False, 'interp': 'L'},
    'maxsize 640+480lin': {'action': 'maxsize', 'width': 640, 'height': 480, 'aspect': False, 'interp': 'L'},
    'minsize 135x246C': {'action': 'minsize', 'width': 135, 'height': 246, 'interp': 'C'},
    'box 0+0x1x1 #fdb975': {'action': 'box', 'x': 0.0, 'y': 0.0, 'width': 1.0, 'height': 1.0, 'color': (253, 185, 117)},
    'box .1 + 0.2 x 0.3 x 0.4 #246': {'action': 'box', 'x': 0.1, 'y': 0.2, 'width': 0.3, 'height': 0.4,
                                      'color': (34, 68, 102)},
}
SEGTIME = {'5:00': 300.0}       # video_out.parse_segtime('mm:ss')

# (text-side extra fields, structured-side extra fields) - documented equivalences of the base Filter's scalar fields
EXTRAS = [
    ({}, {}),
    ({'mq_log': True}, {'mq_log': 'all'}),
    ({'mq_log': 'none'}, {'mq_log': False}),
    ({'extra_metrics': [('m_int', 1), ('m_str', 's')]}, {'extra_metrics': {'m_int': 1, 'm_str': 's'}}),
    ({'outputs_required': 'f1, f2'}, {'outputs_required': ['f1', 'f2']}),
    ({'mq_log': 'pretty', 'sources_timeout': 100, 'exit_after': '1:30'},
     {'mq_log': 'pretty', 'sources_timeout': 100, 'exit_after': '1:30'}),
    ({'outputs_required': ' f1 ,f2 , f3,f4 ', 'mq_log': False}, {'outputs_required': ['f1', 'f2', 'f3', 'f4'], 'mq_log': False}),
]
OTHER_SIDE = [   # the plain mq side of a filter whose other side is under variation: 1-4 addresses, text vs list
    ('tcp://localhost:5550', ['tcp://localhost:5550']),
    ('tcp://localhost:5550;main , ipc://in2;other', ['tcp://localhost:5550;main', 'ipc://in2;other']),
    (' tcp://a:1 ,tcp://b:2?, ipc://c??;x>y ', ['tcp://a:1', 'tcp://b:2?', 'ipc://c??;x>y']),
    ('tcp://a:1,tcp://b:2,tcp://c:3,ipc://d', ['tcp://a:1', 'tcp://b:2', 'tcp://c:3', 'ipc://d']),
]
OTHER_OUT = [
    ('tcp://*:5552', ['tcp://*:5552']),
    ('tcp://*:5552 , ipc://out2', ['tcp://*:5552', 'ipc://out2']),
    (' tcp://*:5552,ipc://o2 ,ipc://o3, tcp://127.0.0.1:6000 ', ['tcp://*:5552', 'ipc://o2', 'ipc://o3', 'tcp://127.0.0.1:6000']),
]


class Classes:
    """The real classes, imported from the tree under test."""

    def __init__(self):
        from openfilter.filter_runtime.filter import Filter, FilterConfig
        from openfilter.filter_runtime.filters.util import Util, UtilConfig
        from openfilter.filter_runtime.filters.recorder import Recorder
        from openfilter.filter_runtime.filters.video_in import VideoIn
        from openfilter.filter_runtime.filters.video_out import VideoOut
        from openfilter.filter_runtime.filters.image_in import ImageIn
        from openfilter.filter_runtime.filters.image_out import ImageOut
        from openfilter.filter_runtime.filters.mqtt_out import MQTTOut
        from openfilter.filter_runtime.filters.rest import REST, RESTConfig
        from openfilter.filter_runtime.filters.webvis import Webvis
        self.Filter, self.FilterConfig = Filter, FilterConfig
        self.Endpoint = RESTConfig.Endpoint
        self.by_name = {'Filter': Filter, 'Util': Util, 'Recorder': Recorder, 'VideoIn': VideoIn, 'VideoOut': VideoOut,
                        'ImageIn': ImageIn, 'ImageOut': ImageOut, 'MQTTOut': MQTTOut, 'REST': REST, 'Webvis': Webvis}


FIELD = {'Filter': 'sources', 'Util': 'xforms', 'Recorder': 'outputs', 'VideoIn': 'sources', 'VideoOut': 'outputs',
         'ImageIn': 'sources', 'ImageOut': 'outputs'}
ADDRKEY = {'VideoIn': 'source', 'ImageIn': 'source', 'VideoOut': 'output', 'ImageOut': 'output'}


def entry_options(cls, opts, style, normal):
    """Abstract option set -> options dict of a structured item.  VideoOut: names outside bgr/fps/segtime/params live
    under params (k = ['params', name] in the reference).  normal=True additionally applies value normalisation."""
    d = {}
    for o in opts:
        val = True if o['kind'] == 'true' else False if o['kind'] == 'false' else pyval(o['v'], style)
        k = o['k']
        if len(k) == 2 and k[0] == 'params':
            d.setdefault('params', {})[k[1]] = val
        elif k == ['params']:
            d.setdefault('params', {}).update(val)
        else:
            name = ''.join(k)
            if normal and cls == 'VideoOut' and name == 'segtime' and isinstance(val, str):
                val = SEGTIME[val]
            d[name] = val
    return d


def struct_item(cls, e, wi, style, full, normal=False):
    """Pool entry e (x, r, n) -> the structured item the documentation declares equivalent to its text."""
    n = e['n']
    if cls == 'Filter':
        return render(e['r'][wi], style).strip()
    addr = render(n['addr'], style)
    if cls == 'Util':
        d = fcopy(XFORMS[re.sub(r'\s+', ' ', addr)])
        if n['topic']:
            d['topics'] = [t for t in n['topic'] if t != ';']
        return d
    if cls == 'Recorder':
        return (addr, entry_options(cls, n['opts'], style, normal))
    topic = ''.join(n['topic'])                        # defaulted ('main') in n
    explicit = bool(e['x']['maps'])
    d = {ADDRKEY[cls]: addr}
    if full or explicit or normal:
        d['topic'] = topic
    options = entry_options(cls, n['opts'], style, normal)
    if full or options or normal:
        d['options'] = options
    return d


def build_config_forms(case):
    """case: {cls, entries: [pool entry], w (1-based ws index), wbits, extra, side, style} -> {form: python config}."""
    cls, wi, style = case['cls'], case['w'] - 1, case.get('style', 0)
    w = wdict(case['wbits'])
    ents = case['entries']
    et, es = fcopy(EXTRAS[case.get('extra', 0) % len(EXTRAS)])
    base_t, base_s = {'id': 'flt'}, {'id': 'flt'}
    if cls in ('Util', 'Recorder', 'VideoOut', 'ImageOut'):
        st, sl = OTHER_SIDE[case.get('side', 0) % len(OTHER_SIDE)]
        base_t['sources'], base_s['sources'] = st, list(sl)
    if cls in ('Filter', 'Util', 'VideoIn', 'ImageIn'):
        ot, ol = OTHER_OUT[case.get('side', 0) % len(OTHER_OUT)]
        base_t['outputs'], base_s['outputs'] = ot, list(ol)
    if cls == 'Recorder':
        base_t['rules'], base_s['rules'] = ' +topic , -/meta,+other/meta/id ', ['+topic', '-/meta', '+other/meta/id']
    base_t.update(et)
    base_s.update(es)
    field = FIELD[cls]
    texts = [render(e['r'][wi], style) for e in ents]
    forms = {}
    if not any(e['comma'] for e in ents):
        sep = (WS_STYLES[style] + ',' + WS_STYLES[style]) if w['comma'] else ','
        edge = WS_STYLES[style] if w['edge'] else ''
        forms['text'] = {**fcopy(base_t), field: edge + sep.join(texts) + edge}
    forms['list'] = {**fcopy(base_t), field: [t.strip() if cls == 'Filter' else t for t in texts]}
    forms['struct'] = {**fcopy(base_s), field: [struct_item(cls, e, wi, style, False) for e in ents]}
    forms['struct_full'] = {**fcopy(base_s), field: [struct_item(cls, e, wi, style, True) for e in ents]}
    return forms


def expected_field(case):
    cls, wi, style = case['cls'], case['w'] - 1, case.get('style', 0)
    return [struct_item(cls, e, wi, style, True, normal=True) for e in case['entries']]


def eval_forms(N, forms, modulo=None):
    """The property's two formulas on the real normaliser N for a dict of equivalent forms.
    Returns (problems, normal) where problems = [(kind, form, detail)]."""
    problems, normal, firsts = [], {}, {}
    for name, cfg in forms.items():
        r1 = call(N, cfg)                      # forms are built fresh for every evaluation (normalisers mutate lists)
        if r1[0] != 'ok':
            normal[name] = r1
            continue
        n1 = r1[1]
        if modulo:
            modulo(n1)
        snap = fcopy(n1)
        r2 = call(N, n1)                       # normalize_config(normalize_config(c)), on the very object returned
        normal[name] = ('ok', snap)
        if r2[0] != 'ok':
            problems.append(('idempotence', name, f'second normalisation raised {r2[1]}'))
        elif r2[1] != snap:
            problems.append(('idempotence', name, f'N(N(c)) = {r2[1]!r} but N(c) = {snap!r}'))
        # the normalised configuration belongs to the caller: whatever it does to it must not reach later normalisations
        scribble([n1, r2[1] if r2[0] == 'ok' else None])
    oks = {k: v[1] for k, v in normal.items() if v[0] == 'ok'}
    bad = {k: v[1] for k, v in normal.items() if v[0] != 'ok'}
    if oks and bad:
        for k, err in bad.items():
            problems.append(('text_vs_struct', k, f'form {k} is rejected ({err}) while form {next(iter(oks))} is accepted'))
    names = list(oks)
    ref = 'struct' if 'struct' in oks else (names[0] if names else None)
    for k in names:
        if k != ref and oks[k] != oks[ref]:
            problems.append(('text_vs_struct', k, f'N({k} form) = {oks[k]!r} but N({ref} form) = {oks[ref]!r}'))
    return problems, normal


def eval_config(case, K):
    forms = build_config_forms(case)
    N = K.by_name[case['cls']].normalize_config
    problems, normal = eval_forms(N, forms)
    if case['cls'] == 'Filter':         # Filter.init (filter.py:997) parses every normalised source with parse_topics
        for name, nv in normal.items():
            if nv[0] != 'ok':
                continue
            for e, src in zip(case['entries'], nv[1].get('sources') or ()):
                exp = expect_topics(e['x'], case.get('style', 0))
                r = call(K.Filter.parse_topics, src)
                got = (r[1][0], None if r[1][1] is None else [tuple(p) for p in r[1][1]]) if r[0] == 'ok' else r
                if got != exp:
                    problems.append(('parse_roundtrip', name, f'parse_topics({src!r}) = {got!r}, rendered from {exp!r}'))
    drift = None
    if all(v[0] != 'ok' for v in normal.values()):
        drift = f'every form of a documented-valid {case["cls"]} configuration is rejected: {next(iter(normal.values()))[1]}'
    elif not problems:
        got = normal['struct'][1].get(FIELD[case['cls']])
        exp = expected_field(case)
        if got != exp:
            drift = f'{case["cls"]}.{FIELD[case["cls"]]} normalises to {got!r}, reference {exp!r}'
    return {'problems': problems, 'drift': drift, 'forms': build_config_forms(case) if problems else None}


# ---- Webvis / REST / MQTTOut ----

def tok(ts, style=0):
    return render(ts, style) if ts else None


def build_proto_forms(v, K):
    cls, style, h = v['c'], v.get('style', 0), v['h']
    text = render(v['t'], style)
    host, port = tok(h['host'], style), tok(h['port'], style)
    forms = {}
    if cls == 'Webvis':
        base = {'id': 'flt', 'sources': 'tcp://localhost:5550'}
        forms['text'] = {**base, 'outputs': text}
        forms['list'] = {**base, 'outputs': [text.strip()]}
        s = dict(base)
        if host is not None:
            s['host'] = host
        if port is not None:
            s['port'] = int(port)
        forms['struct'] = s
    elif cls == 'REST':
        base = {'id': 'flt', 'outputs': 'tcp://*:5552'}
        forms['text'] = {**base, 'sources': text}
        forms['list'] = {**base, 'sources': [text.strip()]}
        s = dict(base)
        if host is not None:
            s['host'] = host
        if port is not None:
            s['port'] = int(port)
        if h['base']:
            s['base_path'] = render(h['base'], style)
        eps = []
        for it in (v['items'] or [{'methods': [], 'path': [], 'dst': []}]):
            e = K.Endpoint()
            if it['methods']:
                e.methods = list(it['methods'])
            if it['path']:
                e.path = render(it['path'], style)
            if it['dst']:
                e.topic = render(it['dst'], style)
            eps.append(e)
        s['endpoints'] = eps
        forms['struct'] = s
    else:
        base = {'id': 'flt', 'sources': 'tcp://localhost:5550'}
        if v.get('client_id'):
            base['client_id'] = True
        forms['text'] = {**base, 'outputs': text}
        forms['list'] = {**base, 'outputs': [text.strip()]}
        s = dict(base)
        if host is not None:
            s['broker_host'] = host
        if port is not None:
            s['broker_port'] = int(port)
        if h['base']:
            s['base_topic'] = render(h['base'], style) + ('/' if h['slash'] else '')
        s.update(opts_dict(h['opts'], style))
        if v['items']:
            mts = [render(m, style) for m in v['mt']]
            w = wdict(v['wbits'])
            sep = (WS_STYLES[style] + ',' + WS_STYLES[style]) if w['comma'] else ','
            edge = WS_STYLES[style] if w['edge'] else ''
            forms['fields_text'] = {**fcopy(s), 'mappings': edge + sep.join(mts) + edge}
            forms['fields_list'] = {**fcopy(s), 'mappings': [edge + m + edge for m in mts]}
            ms = []
            for it in v['items']:
                ms.append({'dst_topic': tok(it['dst'], style), 'src_topic': tok(it['src'], style),
                           'src_path': tok(it['path'], style), 'options': opts_dict(it['opts'], style)})
            forms['struct'] = {**fcopy(s), 'mappings': ms}
        else:
            forms['struct'] = s
    return forms


def expected_proto(v):
    cls, style, n = v['c'], v.get('style', 0), v['n']
    h = n['h']
    out = {}
    if cls == 'Webvis':
        if h['host']:
            out['host'] = render(h['host'], style)
        if h['port']:
            out['port'] = int(render(h['port'], style))
    elif cls == 'REST':
        if h['host']:
            out['host'] = render(h['host'], style)
        if h['port']:
            out['port'] = int(render(h['port'], style))
        if h['base']:
            out['base_path'] = render(h['base'], style)
        out['endpoints'] = [{'methods': list(it['methods']), 'path': tok(it['path'], style), 'topic': render(it['dst'], style)}
                            for it in n['items']]
    else:
        if h['host']:
            out['broker_host'] = render(h['host'], style)
        if h['port']:
            out['broker_port'] = int(render(h['port'], style))
        if h['base']:
            out['base_topic'] = render(h['base'], style)
        out.update(opts_dict(h['opts'], style))
        out['mappings'] = [{'dst_topic': tok(it['dst'], style), 'src_topic': tok(it['src'], style),
                            'src_path': tok(it['path'], style), 'options': opts_dict(it['opts'], style)}
                           for it in n['items']] if n['items'] else None
    return out


def eval_proto(v, K):
    forms = build_proto_forms(v, K)
    N = K.by_name[v['c']].normalize_config
    modulo = None
    if v.get('client_id'):
        def modulo(cfg):     # MQTTOut.client_id=True -> '<id>_<8 random characters>': compared modulo the random part
            if isinstance(cfg.get('client_id'), str):
                cfg['client_id'] = 'RANDOM'
    problems, normal = eval_forms(N, forms, modulo)
    drift = None
    if all(x[0] != 'ok' for x in normal.values()):
        drift = f'every form of a documented-valid {v["c"]} configuration is rejected: {next(iter(normal.values()))[1]}'
    elif not problems:
        got = normal['struct'][1]
        exp = expected_proto(v)
        keys = set(exp) | ({'host', 'port', 'base_path', 'endpoints', 'broker_host', 'broker_port', 'base_topic', 'qos',
                            'retain', 'mappings'} & set(got))
        diff = {k: (got.get(k), exp.get(k)) for k in keys if got.get(k) != exp.get(k)}
        if diff:
            drift = f'{v["c"]} normalises differently from the reference (got, reference): {diff!r}'
    return {'problems': problems, 'drift': drift, 'forms': build_proto_forms(v, K) if problems else None}


# ---------------------------------------------------------------------------------------------------------------------

def has_val_option(opt_lists):
    return any(o['kind'] == 'val' for os in opt_lists for o in os)


class Tally:
    """Caps the witnesses kept per signature; counts all of them."""

    def __init__(self, rep, cap=3):
        self.rep, self.cap, self.counts = rep, cap, {}

    def violation(self, what, witness, sig):
        key = json.dumps(sig, sort_keys=True)
        n = self.counts[key] = self.counts.get(key, 0) + 1
        known = any(all(sig.get(k) == v for k, v in f.get('signature', {}).items()) for f in self.rep.findings)
        if known or n <= self.cap:
            self.rep.violation(what, witness() if callable(witness) and (n <= self.cap) else
                               (None if callable(witness) else witness), sig)


def jsonable(x):
    return json.loads(json.dumps(x, default=repr))


def cfg_names(tier):
    t = 'quick' if tier == 'quick' else 'thorough'
    return {'topics': f'ConfigGrammar_{t}_topics', 'options': f'ConfigGrammar_{t}_options',
            'config': f'ConfigGrammar_{t}', 'proto': f'ConfigGrammar_{t}_proto', 'defect': 'ConfigGrammar_defect'}


def run_specs(ctx, rep):
    names = cfg_names(ctx.tier)
    workers = max(2, common.NCPU // 3)

    def emit(mode):
        return mode, tlc_emit_json(SPEC_DIR, names[mode], module='ConfigGrammar', timeout=3000, workers=workers)

    def defect():
        return 'defect', (run_tlc(SPEC_DIR, names['defect'], 'ConfigGrammar', workers=2, timeout=600), None)

    with ThreadPoolExecutor(5) as ex:
        futs = [ex.submit(emit, m) for m in ('topics', 'options', 'config', 'proto')] + [ex.submit(defect)]
        out = dict(f.result() for f in futs)
    for mode in ('topics', 'options', 'config', 'proto'):
        res, data = out[mode]
        tlc_must_pass(res, names[mode])
        if data.get('mode') != mode:
            raise MachineryError(f'{names[mode]} emitted vectors of mode {data.get("mode")!r}')
        rep.add_tlc(names[mode], res, {
            'topics': 'ParseTopics(Render(x)) = x for every valid mapping list, text form and white-space class',
            'options': 'ParseOptions(Render(x)) = x, entry-level composition, exact extent of the defect (InvDefectExact)',
            'config': 'reference normaliser: text == list == structured, idempotent, Filter.init parse of normalised sources',
            'proto': 'Webvis / REST / MQTTOut: every text form normalises to the structured form declared equivalent',
        }[mode])
    res, _ = out['defect']
    if res.error or res.timed_out:
        raise MachineryError(f'TLC failed on {names["defect"]}: {res.error or "timeout"}')
    if res.violated != 'InvRT_Options':
        raise MachineryError(f'with Defects = {{{DEFECT}}} TLC must exhibit the round-trip counterexample, got '
                             f'{res.violated!r}\n{res.out[-2000:]}')
    rep.add_tlc(names['defect'], res, f'Defects = {{{DEFECT}}}: TLC exhibits the counterexample (white space before "=")')
    trace = common.parse_counterexample(res.out)
    cex = trace[-1][1].get('kase') if trace else None
    return {m: out[m][1] for m in ('topics', 'options', 'config', 'proto')}, {m: out[m][0] for m in out}, cex


def grammar_sig(case, ev, Filter):
    """Facts identifying the kind of a round-trip witness."""
    w = wdict(case['w'])
    dev = bool(w['eqL'] and has_val_option([case['x']['opts']]))
    sig = {'kind': 'parse_roundtrip', 'fn': 'parse_topics' if case['mode'] == 'topics' else 'parse_options',
           'ws_before_eq': dev, 'passes_without_ws_before_eq': False}
    if dev:
        sig['passes_without_ws_before_eq'] = eval_grammar(without_eql(case), Filter)['ok']
    return sig


def replay_grammar(ctx, rep, tally, data, mode, K, stats):
    ident = set(data['ident'])
    cases = data['cases']
    n_dev = n_dev_model = 0
    for ci, vec in enumerate(cases):
        check_tokens(vec['t'], ident, mode)
        case = {'mode': mode, 'x': vec['x'], 'w': vec['w'], 't': vec['t'], 'style': ci % 2}
        ev = eval_grammar(case, K.Filter)
        rep.case((mode, render(vec['t']), ci % 2), nontrivial=bool(vec['x']['maps'] or vec['x']['opts'] or '!' in vec['x']['addr']))
        rep.traces += 1
        key = (mode, len(vec['x']['maps']), len(vec['x']['opts']), '!' in vec['x']['addr'])
        stats[key] = stats.get(key, 0) + 1
        for m in vec['x']['maps']:
            stats[('form', m['form'])] = stats.get(('form', m['form']), 0) + 1
        for o in vec['x']['opts']:
            stats[('optkind', o['kind'])] = stats.get(('optkind', o['kind']), 0) + 1
        if ci < 2:
            rep.sample({'mode': mode, 'text': ev['text'], 'expected': jsonable(ev['expect']), 'real': jsonable(ev['real'])}, 8)
        if vec.get('dev') and not vec['x']['maps']:
            # conformance to the specification WITH the defect switched on (the code as it stands)
            n_dev += 1
            asis = (render(vec['asis']['text'], case['style']), opts_dict(vec['asis']['opts'], case['style']))
            if ev['real'][0] == 'ok' and tuple(ev['real'][1]) == asis:
                n_dev_model += 1
        if not ev['ok']:
            sig = grammar_sig(case, ev, K.Filter)
            tally.violation(
                f'{sig["fn"]}({ev["text"]!r}) = {ev["real"][1]!r}, but the text is the rendering of {ev["expect"]!r}',
                {'level': 'grammar', 'case': case, 'text': ev['text'], 'real': jsonable(ev['real']),
                 'expected': jsonable(ev['expect'])}, sig)
    return n_dev, n_dev_model


def config_cases(data):
    """(cls, idx tuple, ws index) for every configuration case of the vectors, deduplicated."""
    out = []
    for cls in sorted(data['cases']):
        seen = set()
        for per_main in data['cases'][cls]:
            for idx in per_main:
                t = tuple(idx)
                if t in seen:
                    continue
                seen.add(t)
                for j in data['wsidx']:
                    out.append((cls, t, j))
    return out


def config_sig(case, ev, K):
    dev = bool(wdict(case['wbits'])['eqL'] and has_val_option([e['x']['opts'] for e in case['entries']]))
    kinds = sorted({p[0] for p in ev['problems']})
    sig = {'kind': '+'.join(kinds), 'cls': case['cls'],
           'ws_before_eq': dev, 'passes_without_ws_before_eq': False}
    if dev:
        c2 = dict(case, w=2, wbits=[b if n != 'eqL' else False for n, b in zip(W_NAMES, case['wbits'])])
        sig['passes_without_ws_before_eq'] = not eval_config(c2, K)['problems']
    return sig


def make_config_case(data, ci, cls, idx, j):
    return {'cls': cls, 'entries': [data['pools'][cls][i - 1] for i in idx], 'w': j, 'wbits': data['ws'][j - 1],
            'extra': ci, 'side': ci // 7, 'style': ci % 2, 'idx': list(idx)}


_G = {}     # inherited by the forked workers of replay_config


def _config_chunk(bounds):
    data, K, cases = _G['data'], _G['K'], _G['cases']
    stats, drift, problems = {}, [], []
    for ci in range(*bounds):
        cls, idx, j = cases[ci]
        case = make_config_case(data, ci, cls, idx, j)
        ev = eval_config(case, K)
        stats[(cls, len(idx))] = stats.get((cls, len(idx)), 0) + 1
        if ev['drift']:
            drift.append((ci, ev['drift']))
        if ev['problems']:
            problems.append((ci, config_sig(case, ev, K), ev['problems']))
    return stats, drift, problems


def replay_config(ctx, rep, tally, data, K, stats):
    ident = set(data['ident'])
    for cls, pool in data['pools'].items():
        for e in pool:
            for r in e['r']:
                check_tokens(r, ident, f'pool {cls}')
    # the harness' comma-joining must equal the specification's JoinCommas (sample of complete texts)
    for s in data['texts']:
        case = {'cls': s['c'], 'entries': [data['pools'][s['c']][i - 1] for i in s['i']], 'w': s['w'],
                'wbits': data['ws'][s['w'] - 1], 'style': 0}
        mine = build_config_forms(case)['text'][FIELD[s['c']]]
        if mine != render(s['t']):
            raise MachineryError(f'comma text of the harness {mine!r} differs from JoinCommas {render(s["t"])!r}')
    cases = config_cases(data)
    _G.update(data=data, K=K, cases=cases)
    step = 1500
    chunks = [(a, min(a + step, len(cases))) for a in range(0, len(cases), step)]
    nproc = int(os.environ.get('VERIF_C11_PROCS') or max(1, min(12, common.NCPU - 2)))
    if nproc > 1 and len(chunks) > 1:
        import multiprocessing
        with multiprocessing.get_context('fork').Pool(nproc) as pool:
            results = pool.map(_config_chunk, chunks)          # order-preserving: the verdict is deterministic
    else:
        results = [_config_chunk(c) for c in chunks]
    for st, drift, problems in results:
        for k, v in st.items():
            stats[k] = stats.get(k, 0) + v
        for ci, d in drift:
            rep.drift_note(d)
        for ci, sig, probs in problems:
            cls, idx, j = cases[ci]
            kind, form, detail = probs[0]

            def witness(ci=ci, cls=cls, idx=idx, j=j, probs=probs):
                case = make_config_case(data, ci, cls, idx, j)
                return {'level': 'config', 'case': case, 'problems': probs, 'forms': jsonable(build_config_forms(case))}
            tally.violation(f'{cls}.normalize_config: {kind} ({form} form): {detail}', witness, sig)
    for ci, (cls, idx, j) in enumerate(cases):
        rep.case((cls, idx, j))
        if ci % 9973 == 0:
            rep.sample({'cls': cls, 'forms': jsonable(build_config_forms(make_config_case(data, ci, cls, idx, j)))}, 8)
    rep.traces += len(cases)
    return len(cases)


def proto_sig(v, ev, K):
    dev = bool(wdict(v['wbits'])['eqL'] and has_val_option([v['h']['opts']] + [it['opts'] for it in v['items']]))
    kinds = sorted({p[0] for p in ev['problems']})
    sig = {'kind': '+'.join(kinds), 'cls': v['c'],
           'ws_before_eq': dev, 'passes_without_ws_before_eq': False}
    if dev:
        v2 = dict(v, t=without_eql({'t': v['t'], 'w': v['wbits']})['t'],
                  mt=[without_eql({'t': m, 'w': v['wbits']})['t'] for m in v['mt']])
        sig['passes_without_ws_before_eq'] = not eval_proto(v2, K)['problems']
    return sig


def replay_proto(ctx, rep, tally, data, K, stats):
    ident = set(data['ident'])
    for ci, vec in enumerate(data['cases']):
        check_tokens(vec['t'], ident, 'proto')
        v = dict(vec, wbits=data['ws'][vec['w'] - 1], style=ci % 2, client_id=(vec['c'] == 'MQTTOut' and ci % 5 == 0))
        ev = eval_proto(v, K)
        rep.case((vec['c'], render(vec['t']), ci % 2))
        rep.traces += 1
        stats[(vec['c'], len(vec['items']))] = stats.get((vec['c'], len(vec['items'])), 0) + 1
        if ci % 997 == 0:
            rep.sample({'cls': vec['c'], 'forms': jsonable(ev['forms'])}, 8)
        if ev['drift']:
            rep.drift_note(ev['drift'])
        if ev['problems']:
            sig = proto_sig(v, ev, K)
            kind, form, detail = ev['problems'][0]
            tally.violation(f'{vec["c"]}.normalize_config: {kind} ({form} form): {detail}',
                            {'level': 'proto', 'case': v, 'problems': ev['problems'], 'forms': jsonable(ev['forms'])}, sig)


def replay_tlc_counterexample(rep, tally, cex, K):
    """The counterexample TLC finds with the defect switched on is executed on the real parser (DESIGN 4: a TLC
    counterexample is never a verdict by itself)."""
    if not cex:
        raise MachineryError('could not parse the counterexample of ConfigGrammar_defect')
    x = {'addr': list(cex['x']['addr']), 'maps': [dict(m) for m in cex['x']['maps']],
         'opts': [{'k': list(o['k']), 'kind': o['kind'], 'v': list(o['v'])} for o in cex['x']['opts']]}
    w = [cex['w'][n] for n in W_NAMES]
    # Render, as in the specification (options then topics)
    wd = wdict(w)
    sp = lambda b: [' '] if b else []
    t = sp(wd['edge']) + list(x['addr'])
    for o in x['opts']:
        t += sp(wd['bang']) + ['!'] + sp(wd['bang'])
        t += (list(o['k']) if o['kind'] == 'true' else ['no-'] + list(o['k']) if o['kind'] == 'false'
              else list(o['k']) + sp(wd['eqL']) + ['='] + sp(wd['eqR']) + list(o['v']))
    t += sp(wd['edge'])
    case = {'mode': 'options', 'x': dict(x, maps=[]), 'w': w, 't': t, 'style': 0}
    ev = eval_grammar(case, K.Filter)
    rep.extra['tlc_counterexample'] = {'text': ev['text'], 'real': jsonable(ev['real']), 'expected': jsonable(ev['expect']),
                                       'reproduced_on_code': not ev['ok']}
    rep.traces += 1
    if not ev['ok']:
        tally.violation(f'parse_options({ev["text"]!r}) = {ev["real"][1]!r}, but the text is the rendering of '
                        f'{ev["expect"]!r} (counterexample found by TLC with Defects = {{{DEFECT}}})',
                        {'level': 'grammar', 'case': case, 'text': ev['text'], 'real': jsonable(ev['real']),
                         'expected': jsonable(ev['expect'])}, grammar_sig(case, ev, K.Filter))


DOC_EXAMPLE = {'mode': 'options', 'style': 0, 'w': [False, False, False, True, True, True, False],
               'x': {'addr': ['text'], 'maps': [], 'opts': [{'k': ['a'], 'kind': 'val', 'v': ['1']},
                                                           {'k': ['b'], 'kind': 'val', 'v': ['hello']},
                                                           {'k': ['c'], 'kind': 'true', 'v': []}]},
               't': ['text', '!', 'a', '=', '1', ' ', '!', ' ', 'b', ' ', '=', ' ', 'hello', ' ', '!', 'c']}


def observations(rep, K):
    """Things seen on the way that are outside C11's formulas (recorded, never a verdict)."""
    obs = []
    E = K.Endpoint
    r = call(K.by_name['REST'].normalize_config, {'id': 'r', 'outputs': 'tcp://*', 'host': 'h', 'port': 80,
                                                  'base_path': '/api', 'endpoints': [E(path='one')]})
    if r[0] == 'ok' and r[1].get('base_path') is None:
        obs.append("REST.normalize_config(base_path='/api') -> base_path None: rest.py slices base_path[sw:-ew] with "
                   "ew == 0, i.e. [1:0]; the documentation does not declare '/api' equivalent to a text form, so this "
                   "is not a C11 witness")
    r = call(K.by_name['ImageIn'].normalize_config, {'id': 'i', 'outputs': 'tcp://*', 'sources': 'file:///p!poll_interval=10'})
    if r[0] != 'ok':
        obs.append(f"ImageIn docstring example '...!poll_interval=10' is rejected ({r[1]}); poll_interval is not in the "
                   f"documented list of per-source options, so it is not generated")
    r = call(K.Filter.parse_topics, 'text;a;b>c ; >   e;')
    if r[0] != 'ok':
        obs.append("parse_topics docstring example 'text;a;b>c ; >   e;' maps 'main' twice and raises by the "
                   "function's own uniqueness rule: an invalid list, outside the domain")
    rep.extra['observations'] = obs


def run(ctx):
    common.use_repo()
    rep = Report(ctx)
    rep.rule = ('case = one abstract configuration text/structure from ConfigGrammar.tla (mapping list x text forms x '
                'white space; option list x address with "!" x white space; per class 1-4 entries x position x white '
                'space x form); distinct = distinct rendered inputs; non-trivial = has a mapping, an option or a "!"')
    rep.assumptions = [
        'valid domain derived from the docstrings: unique mapping sources/destinations, unique option names, no '
        '"!"/";" inside option values, last "!"-segment of an address not option-like (ConfigGrammar.tla LawAmbiguous*: '
        'these texts are renderings of two different inputs), comma only in list/structured forms',
        'white space = runs of one or two blanks around separators; tabs/newlines not generated',
        'JSON meaning of value words is declared in vlib/c11.py PYVAL (json_getval itself is four lines, trusted)',
        'REST structured endpoints are RESTConfig.Endpoint objects, as the docstring says',
    ]
    K = Classes()
    data, results, cex = run_specs(ctx, rep)
    tally = Tally(rep)
    stats = {}
    # vacuity guards: the enumerations of TLC and the vectors coincide
    for mode in ('topics', 'options', 'proto'):
        if len(data[mode]['cases']) != results[mode].distinct:
            raise MachineryError(f'{mode}: {len(data[mode]["cases"])} vectors but TLC checked {results[mode].distinct} cases')
    n_dev = n_model = 0
    for mode in ('topics', 'options'):
        a, b = replay_grammar(ctx, rep, tally, data[mode], mode, K, stats)
        n_dev, n_model = n_dev + a, n_model + b
    ncfg = replay_config(ctx, rep, tally, data['config'], K, stats)
    if ncfg != results['config'].distinct:
        raise MachineryError(f'config: {ncfg} vectors but TLC checked {results["config"].distinct} cases')
    replay_proto(ctx, rep, tally, data['proto'], K, stats)
    replay_tlc_counterexample(rep, tally, cex, K)
    # the docstring example of parse_options itself
    ev = eval_grammar(DOC_EXAMPLE, K.Filter)
    rep.traces += 1
    rep.case(('doc-example', ev['text']))
    if not ev['ok']:
        tally.violation(f'parse_options({ev["text"]!r}) = {ev["real"][1]!r}; its docstring documents {ev["expect"]!r}',
                        {'level': 'grammar', 'case': DOC_EXAMPLE, 'text': ev['text'], 'real': jsonable(ev['real']),
                         'expected': jsonable(ev['expect'])}, grammar_sig(DOC_EXAMPLE, ev, K.Filter))
    observations(rep, K)
    rep.extra['cases_per_branch'] = {' '.join(map(str, k)): v for k, v in sorted(stats.items(), key=lambda kv: str(kv[0]))}
    rep.extra['witnesses_per_signature'] = tally.counts
    rep.extra['defect_model'] = {
        'switch': DEFECT, 'parse_options_cases_with_ws_before_eq': n_dev,
        'of_which_real_result_equals_reference_with_defect_on': n_model,
        'code_conforms_to': ('Defects = {} (the documented design)' if not tally.counts else
                             f'Defects = {{{DEFECT}}}' if n_dev == n_model and all(
                                 '"passes_without_ws_before_eq": true' in k for k in tally.counts) else 'neither: see witnesses')}
    try:
        rep.extra['selftest'] = selftest(K, data)
    except MachineryError as e:
        # the self-test evaluates a conforming vector and a corrupted one on the real code: on a tree that already violates
        # the property the "conforming" half may fail for that reason - the witnesses stand, the self-test is void
        if not rep.violations:
            raise
        rep.extra['selftest'] = f'void on a violating tree: {e}'
    rep.exhaustive = True
    # one witness per distinct signature first (Report.finish writes out only the first few witnesses)
    seen, first, rest = set(), [], []
    for v in rep.violations:
        key = json.dumps(v[2], sort_keys=True)
        (rest if key in seen else first).append(v)
        seen.add(key)
    rep.violations = first + rest
    return rep.finish()


def selftest(K=None, data=None):
    """A corrupted expectation must be rejected by every evaluator (the binding is demonstrated, not assumed).
    Called by run() on the vectors of the run; stand-alone it runs the quick specifications itself."""
    if K is None:
        common.use_repo()
        K = Classes()
    if data is None:
        ctx = common.Ctx('C11', 'quick', 0)
        data, _, _ = run_specs(ctx, Report(ctx))
    out = {}
    # grammar: swap src/dst of a mapping; flip an option kind
    vec = next(v for v in data['topics']['cases'] if any(m['src'] != m['dst'] for m in v['x']['maps']))
    bad = copy.deepcopy(vec)
    for m in bad['x']['maps']:
        m['src'], m['dst'] = m['dst'], m['src']
    out['topics_swapped_mapping_rejected'] = (eval_grammar({'mode': 'topics', **vec}, K.Filter)['ok']
                                              and not eval_grammar({'mode': 'topics', **bad}, K.Filter)['ok'])
    vec = next(v for v in data['options']['cases'] if not v['dev'] and not v['x']['maps']
               and any(o['kind'] == 'true' for o in v['x']['opts']))
    bad = copy.deepcopy(vec)
    next(o for o in bad['x']['opts'] if o['kind'] == 'true')['kind'] = 'false'
    out['options_flipped_flag_rejected'] = (eval_grammar({'mode': 'options', **vec}, K.Filter)['ok']
                                            and not eval_grammar({'mode': 'options', **bad}, K.Filter)['ok'])
    # config: a structured form that is NOT equivalent must be reported as text_vs_struct
    pool = data['config']['pools']['VideoIn']
    e = next(p for p in pool if p['x']['opts'] and p['x']['maps'])
    case = {'cls': 'VideoIn', 'entries': [e], 'w': 1, 'wbits': data['config']['ws'][0], 'style': 0}
    good = eval_config(case, K)
    e2 = copy.deepcopy(e)
    e2['n']['topic'] = ['corrupted']
    bad = eval_config(dict(case, entries=[e2]), K)
    out['config_corrupted_struct_rejected'] = not good['problems'] and any(p[0] == 'text_vs_struct' for p in bad['problems'])
    # idempotence evaluator: a normaliser that is not idempotent must be reported

    def flaky(cfg):
        cfg = dict(cfg)
        cfg['n'] = cfg.get('n', 0) + 1
        return cfg
    out['idempotence_evaluator_rejects'] = any(p[0] == 'idempotence' for p in eval_forms(flaky, {'a': {'id': 1}})[0])
    if not all(out.values()):
        raise MachineryError(f'self-test failed: {out}')
    return out


def replay(ctx):
    common.use_repo()
    K = Classes()
    w = json.load(open(ctx.replay))
    wit = w['witness']
    print(f'replaying {w["what"]}')
    if wit['level'] == 'grammar':
        ev = eval_grammar(wit['case'], K.Filter)
        print(json.dumps({'text': ev['text'], 'real': jsonable(ev['real']), 'expected': jsonable(ev['expect']),
                          'round_trip_holds': ev['ok']}, indent=1))
        bad = not ev['ok']
    elif wit['level'] == 'config':
        ev = eval_config(wit['case'], K)
        print(json.dumps({'forms': jsonable(ev['forms']), 'problems': ev['problems']}, indent=1))
        bad = bool(ev['problems'])
    else:
        ev = eval_proto(wit['case'], K)
        print(json.dumps({'forms': jsonable(ev['forms']), 'problems': ev['problems']}, indent=1))
        bad = bool(ev['problems'])
    print('VIOLATION reproduced' if bad else 'not reproduced on this tree')
    return 1 if bad else 0

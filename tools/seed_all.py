#!/venv/bin/python
"""Runs tools/seedtest.py on every finished seeded change under /tmp/seed{,2,3}_C*/change* that has no result yet, keeps it under
/verif/seeded/<Cxx>_<n>/ and prints one line per change."""
import glob, json, os, subprocess, sys
from concurrent.futures import ThreadPoolExecutor
todo = []
for d in sorted(glob.glob('/tmp/seed_C*/change*') + glob.glob('/tmp/seed2_C*/change*') + glob.glob('/tmp/seed3_C*/change*') + glob.glob('/tmp/seed4_C*/change*')):
    if os.path.exists(d + '/meta.json') and os.path.exists(d + '/patch.diff') and os.path.exists(d + '/demo.py') and not os.path.exists(d + '/result.json'):
        prop = d.split('/')[2].split('_')[1]
        rnd = {'seed': 0, 'seed2': 2, 'seed3': 4, 'seed4': 6}[d.split('/')[2].split('_')[0]]
        todo.append((prop, d, f'{prop}_{int(d[-1]) + rnd}'))
def run(t):
    prop, d, name = t
    subprocess.run(['/venv/bin/python', '/verif/tools/seedtest.py', prop, d, '--keep-as', name], capture_output=True, text=True, timeout=5400)
    try:
        r = json.load(open(d + '/result.json'))
    except Exception as e:
        return f'{name}: NO RESULT {e}'
    dw, dwo = r.get('demo_with', {}).get('rc'), r.get('demo_without', {}).get('rc')
    tf = r.get('tests', {}).get('failed')
    ck = r.get('check', {})
    return (f"{name}: applies={r.get('applies')} demo_without_rc={dwo} demo_with_rc={dw} tests_failed={tf} "
            f"caught={r.get('caught')} | {(ck.get('lines') or [''])[1][:150] if len(ck.get('lines') or []) > 1 else ck.get('summary', '')[:150]}")
with ThreadPoolExecutor(int(sys.argv[1]) if len(sys.argv) > 1 else 2) as ex:
    for line in ex.map(run, todo):
        print(line, flush=True)

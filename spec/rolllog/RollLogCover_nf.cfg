SPECIFICATION SpecC
CONSTANTS
  Readers = {"r1"}
  AutoRef = {"r1"}
  Sizes = {1, 2}
  FileSizes = {1, 3}
  TotalSizes = {1, 4}
  MaxWrites = 3
  MaxTs = 2
  MaxDeletes = 1
  MaxReopens = 0
  MaxPosOps = 0
  Active = {"r1"}
  Bin = FALSE
  Acts = {"write", "writenf", "flush", "read", "readblock", "delete"}
  Defects = {"overwrite", "refresh_skip", "frac_ts"}
VIEW view
ACTION_CONSTRAINT Emit

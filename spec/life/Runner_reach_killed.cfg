SPECIFICATION Spec
CONSTANTS N = 2
  StopExit = {"clean", "error"}
INVARIANT X_KilledUnnoticed

"""C03 - a synchronized pipeline computes the composition of its filters, frame for frame.

Specification: spec/proto/OFP.tla: InById / OutById (functional composition over the topology, paired by message id),
C03_Prefix evaluated at every delivery, C03_Complete (liveness) under prompt scheduling with fairness; handshake
(HELLO soak) and outputs_required are what make "no frame is lost, starting with the very first one" hold.
Assumptions of the property are the configuration: all consumers synchronized, publishers list their consumers as
required outputs, prompt scheduling (a poll timeout fires only when nothing else can happen), no faults, skipping only on
branches that are not rejoined.
"""
from . import common, topos
from .common import Report
from .protocheck import Engine, replay_witness

PROPS = ('C03_Prefix', 'C03_Complete', 'C03_Lazy')
INV = ('C03', 'NoCrash')
JK = dict(c03=True, complete=True, lazy=True)


def scenarios(quick):
    T, R = topos, topos.with_required
    return dict(
        mc=[(R(T.chain2(maxseq=2)), 'SpecPrompt', {}),
            (R(T.chain3(maxseq=1, skip=(0,))), 'SpecPrompt', {}),
            (R(T.tee_rejoin2(maxseq=1, skip=())), 'SpecZL', {}),
            (R(T.chain3_lazy(maxseq=1)), 'SpecPrompt', {}),
            # applications that drive MQ with the blocking calls (timeout = None) instead of Filter.loop_once's 100 ms slices
            (R(T.blocking(T.chain3(maxseq=2))), 'SpecPrompt', {})] +
           ([] if quick else [
               (R(T.blocking(T.tee(maxseq=2), ['S'])), 'SpecPrompt', {}),
               (R(T.chain3_none_empty(maxseq=3)), 'SpecPrompt', {}),
               (R(T.blocking(T.tee_rejoin2(maxseq=1, skip=()))), 'SpecZL', {}),
               (R(T.chain3(maxseq=2, skip=(1,), slow=True)), 'SpecPrompt', dict(lq=8)),
               (R(T.tee_rejoin2(maxseq=2, skip=())), 'SpecZL', {}),
               (R(T.join2(maxseq=2)), 'SpecPrompt', {}),
               (R(T.tee(maxseq=2)), 'SpecPrompt', {})]),
        live=[(R(T.chain2(maxseq=2)), 'FairPrompt')] + ([] if quick else [(R(T.chain3(maxseq=1)), 'FairPrompt')]),
        mut=[(R(T.chain2(maxseq=1)), 'SpecPrompt', ['hello_counts'], {}),
             (R(T.tee(maxseq=1)), 'SpecPrompt', ['no_required'], {})],
        conf=[(R(T.chain3(maxseq=2, skip=(1,))), 'SpecPrompt', 8 if quick else 100, 200),
              (R(T.tee_rejoin2(maxseq=2, skip=())), 'SpecPrompt', 8 if quick else 100, 250),
              (R(T.chain3_lazy(maxseq=2)), 'SpecPrompt', 6 if quick else 60, 200),
              (R(T.chain3_empty(maxseq=2)), 'SpecPrompt', 4 if quick else 40, 200),
              (R(T.blocking(T.chain3(maxseq=2, skip=(1,)))), 'SpecPrompt', 6 if quick else 80, 200),
              # None for one frame, then a set without any of the sink's explicitly subscribed topics
              (R(T.chain3_none_empty(maxseq=4)), 'SpecPrompt', 6 if quick else 80, 250),
              (R(T.trunk_tee_rejoin(maxseq=4)), 'SpecPrompt', 4 if quick else 60, 400),
              (R(T.remap_main(maxseq=2)), 'SpecPrompt', 4 if quick else 40, 200),
              (R(T.blocking(T.tee_rejoin2(maxseq=2, skip=()), ['S', 'K'])), 'SpecPrompt', 6 if quick else 80, 250)],
        rand=[(R(T.chain3(maxseq=5, skip=(1, 3))), 8 if quick else 150, 1500),
              (R(T.chain3(maxseq=4, slow=True)), 6 if quick else 100, 1500),
              (R(T.tee_rejoin2(maxseq=4, skip=())), 8 if quick else 150, 2000),
              (R(T.tee_rejoin2(maxseq=4, skip=(), slowB=True, explicit_b=True)), 6 if quick else 100, 2500),
              (R(T.join2(maxseq=4)), 6 if quick else 100, 1500),
              (R(T.tee(maxseq=4)), 6 if quick else 100, 1500),
              (R(T.chain3_lazy(maxseq=4)), 6 if quick else 100, 1500),
              # a branch whose subscribed topic is absent on odd frames (completed by the topics message) next to a slow branch
              (R(T.tee_rejoin_absent(maxseq=6)), 8 if quick else 120, 3000),
              # process() returns an empty dict: it is delivered as an empty set, not dropped
              (R(T.chain3_empty(maxseq=5)), 6 if quick else 100, 1500),
              (R(T.chain3_none_empty(maxseq=9)), 6 if quick else 100, 2000),
              # ids that skip on the trunk before a tee (a filter returning None), rejoined behind a branch slower than the poll interval
              (R(T.trunk_tee_rejoin(maxseq=9)), 6 if quick else 100, 4000),
              # subscriptions written in the short forms 'b>' / '>m'
              (R(T.remap_main(maxseq=4)), 4 if quick else 60, 1200),
              # blocking applications (MQ.recv() / MQ.send() with timeout = None)
              (R(T.blocking(T.tee_rejoin2(maxseq=4, skip=()))), 6 if quick else 100, 2000),
              (R(T.blocking(T.chain3(maxseq=5, skip=(1, 3)), ['A'])), 6 if quick else 100, 1500)],
        # required consumers whose ids are prefixes of one another, the shorter-named one joining late
        late=[(T.tee_names(maxseq=5), 8 if quick else 120, 2000, 'K'),
              # a required consumer whose process starts late: nothing may be published before it has registered
              (T.tee_names(maxseq=5), 6 if quick else 100, 2000, 'K!'),
              # the publisher appears late: the consumer's request pipe has filled up (zmq.Again) before; the handshake must still
              # wait for the SUB connection
              (R(T.chain2(maxseq=5)), 10 if quick else 150, 2000, 'S')],
    )


def late_faults(rng, who):
    """K: the task exists but is held back.  S: the process does not exist at first (no sockets bound); when it appears, its
    SUB connections may complete much later than the request pipes (connection establishment is not a message delay)."""
    at = rng.randrange(40, 250)
    if who.endswith('!'):          # the consumer's process does not exist at first
        return [(0, lambda p: p.kill(who[:-1], False)), (at, lambda p: p.restart(who[:-1]))]
    if who != 'S':
        return [(0, lambda p: p.stall(who)), (at, lambda p: p.resume(who))]
    return [(0, lambda p: (p.kill(who, False), setattr(p, 'hold_est', True))),
            (at, lambda p: p.restart(who)),
            (at + rng.randrange(1, 160), lambda p: setattr(p, 'hold_est', False))]


def run(ctx):
    rep = Report(ctx)
    rep.rule = ('case = one execution of the real pipeline (Filter.run of real Filter subclasses) on the simulated network '
                'under one prompt schedule (random order among runnable steps, timeouts only when nothing else is enabled); '
                'non-trivial = at least one frame set handed to a process()')
    rep.assumptions = ['simulated ZeroMQ (vlib/simzmq.py)', 'prompt scheduling = the property\'s "delays below the request '
                       'interval, runnable filters run promptly"', 'publishers declare their consumers as required outputs']
    eng = Engine(ctx, rep, PROPS)
    sc = scenarios(ctx.quick)
    for topo, spec, bounds in sc['mc']:
        eng.model_check(topo, spec, invariants=INV, bounds=bounds, check_c03=True, timeout=900 if ctx.quick else 3000)
    for topo, spec in sc['live']:
        eng.model_check(topo, spec, invariants=(), properties=('C03_Complete',), check_c03=True, view=False,
                        name=f'{topo.name}/{spec}/liveness', timeout=900)
    for topo, spec, muts, bounds in sc['mut']:
        eng.mutation_schedules(topo, spec, muts, invariant='C03', bounds=bounds, check_c03=True,
                               timeout=120 if ctx.quick else 900, judgekw=dict(c03=True, lazy=True))
    for topo, spec, num, depth in sc['conf']:
        eng.conformance(topo, spec, num, depth, judgekw=dict(c03=True, lazy=True), check_c03=True)
    eng.cover(topos.with_required(topos.chain2(maxseq=1)), 'SpecPrompt')
    if not ctx.quick:
        eng.cover(topos.with_required(topos.chain3(maxseq=1)), 'SpecPrompt', max_paths=5000)
    for topo, n, steps in sc['rand']:
        eng.random_runs(topo, n, steps, p_timeout=0.0, judgekw=JK, tag='prompt', pipekw=dict(local_clocks=False), validate=2 if ctx.quick else 20)
    for topo, n, steps, who in sc['late']:
        eng.random_runs(topo, n, steps, p_timeout=0.0, judgekw=JK, tag=f'late-{who}', pipekw=dict(local_clocks=False),
                        # K: the task exists but is held back; S: the process does not exist at first (no sockets bound)
                        faults=lambda rng, pipe, who=who: late_faults(rng, who))
    # an independent join of a fast source and one slower than the request interval, with the real total buffering (the
    # publisher's SNDHWM of 20 plus libzmq's default RCVHWM of 1000 messages per subscriber): the join re-requests from ALL its
    # sources while it waits for the slow one, the fast source answers every request with a further frame and runs ahead.
    # 80 frames fit the buffers; a long stream does not (known finding C03-join-fast-source-runs-ahead).
    for maxseq, name, steps, n in ((80, 'JoinSlowReq', 9000, 2 if ctx.quick else 10), (700, 'JoinSlowLongReq', 60000, 1 if ctx.quick else 3)):
        topo = topos.with_required(topos.join_slow(maxseq=maxseq))
        topo.name = name
        eng.random_runs(topo, n, steps, p_timeout=0.0, judgekw=JK, tag='slow-branch', pipekw=dict(local_clocks=False, sub_rcvhwm=1000))
    return rep.finish()


def replay(ctx):
    return replay_witness(ctx, PROPS, judgekw=JK)

HOOKS = {
    'guard': 'OPENFILTER_VERIF',
    'enable': 'no source hooks are needed: checks import /repo\'s working tree and substitute the module globals '
              '(zmq, time_ns, sleep, threading, open/os) of the modules under test from the harness',
    'baseline_off_cmd': '/verif/tools/baseline_off.sh',
    'source_commits': [],
    'add_only': True,
}
ENGINES = [
    {'name': 'tlc+vectors', 'path': '/verif/vlib', 'serves_properties': ['C09', 'C11', 'C12', 'C15', 'C16', 'C17'],
     'kind_free_text': 'TLA+ reference specification of a function/grammar; TLC checks the laws on every case of a '
                       'bounded domain (one state per case) and emits the cases as vectors that are executed against '
                       'the real code'},
]
NOTES = ('All checks: ./check <id> --tier quick|thorough; VERIF_SEED, VERIF_TIER, VERIF_REPO honoured. '
         'Specifications under /verif/spec, known findings in /verif/known_findings.json, design in DESIGN.md.')
NOT_YET = {}
CHECKS = {
    'C15': dict(
        engine='tlc+vectors', technique='TLA+ information-flow spec (Redact.tla) checked by TLC; every structural case replayed into the real filters with capturing logger, lineage client and MQ',
        design_ref='DESIGN.md 2.5, 5/C15',
        text='TLC proves NoCleartextAtSink of Redact.tla (information-flow model: configuration path -> normalisation -> '
             'sinks, Mask nodes where the code masks) for the intended design on every case (10 filter classes x top '
             'container x key x nestings x single/comma x fault mode x scheme class x character class); for each named '
             'deviation TLC exhibits the leaking case, which is replayed on the code. One vector per structural case is '
             'instantiated with unique secrets and executed on the real filter classes: root-logger records, lineage events '
             'and frames handed downstream are searched for the password, and the host must stay readable.',
        note='state space = set of cases; masking regexes are uninterpreted in TLA+ and exercised per scheme/character '
             'class; vidgear and MQ replaced by stand-ins; six built-in filters driven through __init__/init/fini only'),
    'C16': dict(
        engine='tlc+vectors', technique='TLA+ reference spec (Allowlist.tla) checked by TLC; all cases replayed into the real exporter',
        design_ref='DESIGN.md 2.5, 5/C16',
        text='TLC evaluates the allow-list laws (lock-down, only-listed, union, monotone, histogram shape) on every '
             '(allow-list, allow-list, metric set) case of the bounded domain and emits every (allow-list, metric set) '
             'vector; each vector is executed against the real OTelLineageExporter fed by a real OpenTelemetry '
             'MeterProvider through all allow-list sources (argument, OF_SAFE_METRICS, YAML, default) and through '
             'OpenTelemetryClient\'s own wiring; the exported names must be a subset of the reference.',
        note='state space = set of cases, not interleavings; names rendered from a 2-3 letter alphabet, patterns with '
             "'*' only; OpenTelemetry SDK aggregation trusted"),
}

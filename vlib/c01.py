"""C01 - frames that arrive together stay together: no mixed or partial frame sets.

Specification: spec/proto/OFP.tla (ProcMsg / Consume / Complete / RFinal; formulas C01_SameId, C01_ExactTopics,
C01_SameOrigin evaluated at every delivery).  See vlib/protocheck.py for the four stages.
"""
from . import common, topos, simzmq
from .common import Report
from .protocheck import Engine, replay_witness, binding_selftest

PROPS = ('C01_SameId', 'C01_ExactTopics', 'C01_SameOrigin')
INV = ('C01', 'NoCrash')


def scenarios(quick):
    T = topos
    return dict(
        # (topology, scheduling, TLC bounds)
        mc=[(T.tee_rejoin2(maxseq=1), 'SpecZL', {}),
            (T.join2(maxseq=1), 'SpecPrompt', {}),
            (T.chain2(maxseq=1), 'Spec', dict(pq=6, rq=2, lq=3))] +
           ([] if quick else [
               (T.tee_rejoin2(maxseq=2), 'SpecZL', {}),
               (T.tee_rejoin2(maxseq=1), 'SpecPrompt', {}),
               (T.tee_rejoin2(maxseq=1, skipA=(0,), skip=(), slowB=True, explicit_b=True), 'SpecPrompt', dict(lq=10)),
               (T.hidden(maxseq=1), 'SpecPrompt', {}),
               (T.join2(maxseq=2), 'SpecPrompt', {}),
               (T.join_timeout(maxseq=1, ticks=2), 'SpecPrompt', dict(max_faults=1, fault_kinds=['stall'], victims=['Y']))]),
        # design mutations: (topology, scheduling, mutations, bounds)
        mut=[(T.tee_rejoin2(maxseq=2), 'SpecZL', ['C01a', 'id_not_carried'], {}),
             (T.tee_rejoin2(maxseq=2, explicit_b=True), 'SpecZL', ['no_inval'], {}),
             (T.chain2(maxseq=1), 'SpecPrompt', ['partial_ok'], {}),
             (T.tee_rejoin2(maxseq=1, skipA=(0,), skip=(), slowB=True, explicit_b=True), 'SpecPrompt', ['C01b'], dict(lq=10)),
             # a join with sources_timeout whose one source falls silent: the ids advance through the sends made without input
             (T.join_timeout(maxseq=1, ticks=2), 'SpecPrompt', ['stale_kept'], dict(max_faults=1, fault_kinds=['stall'], victims=['Y']))] +
            ([] if quick else [(T.tee_rejoin_multi(maxseq=2), 'SpecZL', ['inval_complete_only'], dict(max_faults=1, fault_kinds=['drop']))]),
        # conformance replay: (topology, scheduling, number of behaviours, depth)
        conf=[(T.tee_rejoin2(maxseq=2), 'SpecPrompt', 12 if quick else 150, 200),
              (T.tee_rejoin2(maxseq=2, explicit_b=True, slowB=True), 'SpecPrompt', 8 if quick else 100, 200),
              (T.join2(maxseq=2), 'SpecPrompt', 8 if quick else 100, 150),
              (T.hidden(maxseq=1), 'Spec', 6 if quick else 100, 200),
              (T.tee_rejoin_multi(maxseq=3), 'SpecPrompt', 6 if quick else 80, 250),
              (T.tee_rejoin_relay(maxseq=3), 'SpecPrompt', 6 if quick else 80, 300),
              (T.explicit_multi(maxseq=5), 'SpecPrompt', 6 if quick else 80, 300),
              # the rejoin point is an application that calls MQ.recv() / MQ.send() with timeout = None (OFP!Blocking)
              (T.blocking(T.tee_rejoin2(maxseq=2), ['K']), 'SpecPrompt', 6 if quick else 80, 200),
              (T.blocking(T.tee_rejoin_relay(maxseq=3)), 'SpecPrompt', 4 if quick else 60, 300)],
        # random schedules on the real code: (topology, runs, steps, p_timeout, p_drop)
        rand=[(T.tee_rejoin2(maxseq=3), 10 if quick else 200, 700, 0.03, 0.0),
              (T.tee_rejoin2(maxseq=3, skipA=(0,), skip=(2,), slowB=True, explicit_b=True), 12 if quick else 200, 700, 0.03, 0.0),
              (T.tee_rejoin2(maxseq=3, skip=(1, 2), explicit_b=True), 8 if quick else 150, 700, 0.05, 0.05),
              (T.join2(maxseq=3), 8 if quick else 150, 500, 0.05, 0.05),
              (T.hidden(maxseq=2), 6 if quick else 100, 500, 0.05, 0.05),
              # varying topic sets + skipping branch + lost publishes: a half-read sibling buffer must be invalidated too
              (T.tee_rejoin_multi(maxseq=5), 14 if quick else 250, 900, 0.03, 0.08),
              # the rejoin is a relay (recv() is called with the sender's state): adopted ids must survive recv() slices
              (T.tee_rejoin_relay(maxseq=4), 16 if quick else 250, 1200, 0.03, 0.0),
              # explicit two-topic subscription, topic set varying per id, an id skipped upstream
              (T.explicit_multi(maxseq=5), 8 if quick else 150, 900, 0.03, 0.0)],
    )


def run(ctx):
    rep = Report(ctx)
    rep.rule = ('case = one execution of the real pipeline classes on the simulated network under one schedule (a '
                'TLC counterexample of a mutated design, a TLC -simulate behaviour, or a seeded random schedule); '
                'non-trivial = at least one frame set was handed to a process(); distinct = distinct (topology, schedule origin)')
    rep.assumptions = ['the real ZeroMQ library is replaced by vlib/simzmq.py (FIFO per connection, atomic multipart, '
                       'PUB drops at the high-water mark, PUSH pipe from connect(), slow joiner)',
                       'exhaustive model checking is for the stated small constants; larger pipelines are sampled']
    eng = Engine(ctx, rep, PROPS)
    sc = scenarios(ctx.quick)
    binding_selftest(rep, topos.tee_rejoin2(maxseq=2), ctx)
    for topo, spec, bounds in sc['mc']:
        bounds = dict(bounds)
        fk = {k: bounds.pop(k) for k in ('max_faults', 'fault_kinds', 'victims') if k in bounds}
        eng.model_check(topo, spec, invariants=INV, bounds=bounds, timeout=900 if ctx.quick else 3000, **fk)
    for topo, spec, muts, bounds in sc['mut']:
        bounds = dict(bounds)
        fk = {k: bounds.pop(k) for k in ('max_faults', 'fault_kinds') if k in bounds}
        victims = bounds.pop('victims', topo.names if fk else ())
        eng.mutation_schedules(topo, spec, muts, invariant='C01', bounds=bounds, timeout=600, victims=victims, **fk)
    eng.stored_schedules('C01_')
    for topo, spec, num, depth in sc['conf']:
        eng.conformance(topo, spec, num, depth)
    # sources_timeout: a stalled source, process({}) calls in between, then the source comes back
    eng.conformance(topos.join_timeout(maxseq=3, ticks=2), 'SpecPrompt', 8 if ctx.quick else 120, 300, max_faults=1,
                    fault_kinds=['stall'], victims=['Y'])
    eng.cover(topos.join2(maxseq=0), 'SpecPrompt', max_paths=150 if ctx.quick else None)
    if not ctx.quick:
        eng.cover(topos.tee_rejoin2(maxseq=1), 'SpecZL', max_paths=6000)
    for topo, n, steps, pt, pd in sc['rand']:
        eng.random_runs(topo, n, steps, p_timeout=pt, p_drop=pd, tag='rand', validate=3 if ctx.quick else 25)

    # a join with sources_timeout: one source falls silent for a while (the join keeps sending what process({}) returns), then
    # comes back - the frames the join had buffered from the other source carry an id that is long past
    def silence(rng, pipe):
        a = rng.randrange(20, 120)
        return [(a, lambda p: p.stall('Y')), (a + rng.randrange(200, 500), lambda p: p.resume('Y'))]
    eng.random_runs(topos.join_timeout(maxseq=12, ticks=3), 6 if ctx.quick else 100, 2500, p_timeout=0.04, faults=silence,
                    tag='silent-source', validate=2 if ctx.quick else 15)
    partial_publish_kills(eng, rep, topos.chain2(maxseq=6, conn_ticks=5), 'S', 'K', 6 if ctx.quick else 60)
    # a source of a join ends cleanly (CLOSE) in the middle of the stream and is started again (OFP!Again) while the join holds the
    # other source's frame of the current id
    ag = topos.with_exit(topos.join2(maxseq=8), 'S', 3, 'clean', prop=(), obey=())
    eng.model_check(topos.with_exit(topos.join2(maxseq=2), 'S', 1, 'clean', prop=(), obey=()), 'SpecPrompt', invariants=INV,
                    timeout=900, max_faults=1, fault_kinds=['again'], victims=['S'])
    eng.conformance(topos.with_exit(topos.join2(maxseq=3), 'S', 2, 'clean', prop=(), obey=()), 'SpecPrompt', 6 if ctx.quick else 80, 300,
                    max_faults=1, fault_kinds=['again'], victims=['S'])

    def again(rng, pipe):
        def go(p):
            t = p.task('S')
            if t is None or t.state == 'done':
                p.restart('S')
        return [(rng.randrange(150, 400), go)]
    eng.random_runs(ag, 6 if ctx.quick else 100, 1500, p_timeout=0.03, faults=again, tag='source-ends-and-returns')
    return rep.finish()


def partial_publish_kills(eng, rep, topo, pub, con, n):
    """crash points inside one publish: the publisher dies when 1 .. m-1 of the m messages of a multi-topic frame set have reached
    the consumer (the rest is lost with it), comes back on the same address and is asked for that id again"""
    from .proto import SimPipeline
    from .protocheck import run_schedule, finish_prompt, judge
    c = (con, 1)
    for k in range(n):
        rng = common.rng(eng.ctx, f'{topo.name}/partial/{k}')
        pipe = SimPipeline(topo)
        w = pipe.world
        try:
            pipe.start()
            want_frame, j = 1 + k % 3, 1 + (k // 3) % 2      # which frame set, how many of its messages get through
            for _ in range(3000):                         # run promptly, but hold back the deliveries of the chosen frame set
                acts = [a for a in pipe.enabled() if a[0] not in ('timeout',)] or pipe.enabled()
                if not acts:
                    break
                ls = [l for l in w.conn_links(c, 'pubsub') if l.queue]
                mids = [simzmq.hdr(m)[1].get('mid', -1) for l in ls for m in l.queue]
                if mids.count(want_frame) >= 3:
                    break
                pipe.do(rng.choice(acts))
            else:
                continue
            l = next(l for l in w.conn_links(c, 'pubsub') if l.queue)
            while l.queue and simzmq.hdr(l.queue[0])[1].get('mid', -1) != want_frame:
                pipe.do(('dpub', l))
            for _ in range(j):
                if l.queue:
                    pipe.do(('dpub', l))
            t = pipe.task(con)
            if t is not None and t.enabled_action() == 'run':
                pipe.do(('run', t))                       # the consumer takes what has arrived
            pipe.kill(pub, False)                         # the publisher dies, the rest of the frame set with it
            pipe.restart(pub)
            finish_prompt(pipe, rng, 1500)
            eng.judge_pipe(topo, pipe, {'kind': 'trace', 'topo': topo.name, 'topo_def': topo.to_dict(), 'seed': eng.ctx.seed,
                                        'origin': f'{pub} killed after {j} message(s) of frame set {want_frame} reached {con}, restarted ({k})',
                                        'trace': [list(t_) for t_ in w.trace]})
        finally:
            pipe.close()
    print(f'  [faults] {topo.name}: {n} kills inside a publish', flush=True)


def replay(ctx):
    return replay_witness(ctx, PROPS)

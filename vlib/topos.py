"""Topology library shared by the model configurations and the simulated real pipelines (C01-C07)."""
from .proto import Topo, src, beh

T2 = [['main', 'b']]


def chain2(maxseq=2, slow_origin=False, **kw):
    return Topo('Chain2' + ('SlowS' if slow_origin else ''),
                {'S': dict(nout=1, beh=beh('origin', tseq=T2, slow=slow_origin)), 'K': dict(srcs=[src('S')])}, maxseq=maxseq, **kw)


def chain3(maxseq=2, slow=False, skip=(), **kw):
    return Topo('Chain3', {'S': dict(nout=1, beh=beh('origin', tseq=T2)),
                           'A': dict(srcs=[src('S')], nout=1, beh=beh('relay', slow=slow, skip=skip)),
                           'K': dict(srcs=[src('A')])}, maxseq=maxseq, **kw)


def tee(maxseq=2, **kw):
    return Topo('Tee', {'S': dict(nout=1, beh=beh('origin', tseq=[['main']])),
                        'A': dict(srcs=[src('S')]), 'B': dict(srcs=[src('S')])}, maxseq=maxseq, **kw)


def tee_rejoin2(maxseq=2, skip=(1,), slowB=False, explicit_b=False, skipA=(), **kw):
    """S -> A -> K(main>a) and S -> B -> K; B may skip ids (the C01 scenarios)"""
    return Topo('TeeRejoin2', {
        'S': dict(nout=1, beh=beh('origin', tseq=[['main']])),
        'A': dict(srcs=[src('S')], nout=1, beh=beh('relay', skip=skipA)),
        'B': dict(srcs=[src('S')], nout=1, beh=beh('relay', skip=skip, slow=slowB)),
        'K': dict(srcs=[src('A', topics=[('main', 'a')]), src('B', topics=[('main', 'main')] if explicit_b else None)]),
    }, maxseq=maxseq, **kw)


def join2(maxseq=1, **kw):
    return Topo('Join2', {'S': dict(nout=1, beh=beh('origin', tseq=[['main']])),
                          'T': dict(nout=1, beh=beh('origin', tseq=[['main']])),
                          'K': dict(srcs=[src('S', topics=[('main', 'a')]), src('T')])}, maxseq=maxseq, **kw)


def eph_side(maxseq=2, **kw):
    return Topo('EphSide', {'S': dict(nout=1, beh=beh('origin', tseq=[['main']])),
                            'K': dict(srcs=[src('S')]),
                            'E': dict(srcs=[src('S', eph=1)]),
                            'W': dict(srcs=[src('S', eph=2)])}, maxseq=maxseq, **kw)


def balance2(maxseq=3, slow_origin=False, **kw):
    return Topo('Balance2' + ('SlowS' if slow_origin else ''),
                {'S': dict(nout=2, outbal=True, beh=beh('origin', tseq=[['main']], slow=slow_origin)),
                             'W1': dict(srcs=[src('S', out=1)], nout=1),
                             'W2': dict(srcs=[src('S', out=2)], nout=1),
                             'J': dict(srcs=[src('W1'), src('W2')], srcbal=True)}, maxseq=maxseq, **kw)


def hidden(maxseq=1, **kw):
    return Topo('Hidden', {'S': dict(nout=1, beh=beh('origin', tseq=T2, hid=True)),
                           'K': dict(srcs=[src('S')]),
                           'X': dict(srcs=[src('S', star=True)]),
                           'H': dict(srcs=[src('S', topics=[('_filter', '_filter'), ('b', 'bb')])])}, maxseq=maxseq, **kw)


def required2(maxseq=2, **kw):
    return Topo('Required2', {'S': dict(nout=1, required=['K'], beh=beh('origin', tseq=[['main']])),
                              'K': dict(srcs=[src('S')])}, maxseq=maxseq, **kw)


ALL = dict(chain2=chain2, chain3=chain3, tee=tee, tee_rejoin2=tee_rejoin2, join2=join2, eph_side=eph_side,
           balance2=balance2, hidden=hidden, required2=required2)


def blocking(topo, names=None):
    """the named filters (default: all) are applications that drive MQ with the blocking calls (timeout = None)"""
    for f in (names or topo.names):
        topo.filters[f]['blocking'] = True
    topo.name += 'Blk' + ('' if names is None else ''.join(names))
    return topo


def eph_relay(maxseq=40, **kw):
    """S (a producer slower than the poll interval) -> D listening with '?' and numbering its own output -> E"""
    return Topo('EphRelay', {'S': dict(nout=1, beh=beh('origin', tseq=[['main']], slow=True)),
                             'D': dict(srcs=[src('S', eph=1)], nout=1),
                             'E': dict(srcs=[src('D')])}, maxseq=maxseq, **kw)


def required_tee(maxseq=60, **kw):
    """S with consumers A (not required) and B (declared a required output)"""
    t = tee(maxseq=maxseq, **kw)
    t.filters['S']['required'] = ['B']
    t.name = 'RequiredTee'
    return t


def lowlat(topo, names):
    """the named consumers receive in low-latency mode (sources_low_latency: no request for the next frame ahead of time)"""
    for f in names:
        topo.filters[f]['beh']['lowlat'] = True
    topo.name += 'LL' + ''.join(names)
    return topo


def join_timeout(maxseq=3, ticks=2, **kw):
    """a join of two independent sources that does not wait for a silent source for ever: sources_timeout (Filter.loop_once
    calls process() with {} and sends what it returns), relaying to a sink"""
    return Topo('JoinTimeout', {'X': dict(nout=1, beh=beh('origin', tseq=[['main']])),
                                'Y': dict(nout=1, beh=beh('origin', tseq=[['main']])),
                                'J': dict(srcs=[src('X', topics=[('main', 'x')]), src('Y', topics=[('main', 'y')])], nout=1,
                                          sources_timeout=100 * ticks),
                                'K': dict(srcs=[src('J')])}, maxseq=maxseq, **kw)


def join_slow(maxseq=80, **kw):
    """an independent join of a fast source and a source slower than the request interval"""
    return Topo('JoinSlow', {'S': dict(nout=1, beh=beh('origin', tseq=[['main']])),
                             'T': dict(nout=1, beh=beh('origin', tseq=[['main']], slow=True)),
                             'K': dict(srcs=[src('S', topics=[('main', 's')]), src('T', topics=[('main', 't')])])},
                maxseq=maxseq, **kw)


def trunk_tee_rejoin(maxseq=6, slowB=True, **kw):
    """S -> R (returns None for every third frame: ids skip on the trunk) -> A and B (slow) -> K"""
    return Topo('TrunkTeeRejoin', {
        'S': dict(nout=1, beh=beh('origin', tseq=[['main']])),
        'R': dict(srcs=[src('S')], nout=1, beh=beh('relay', skip=(1, 4, 7, 10))),
        'A': dict(srcs=[src('R')], nout=1),
        'B': dict(srcs=[src('R')], nout=1, beh=beh('relay', slow=slowB)),
        'K': dict(srcs=[src('A', topics=[('main', 'a')]), src('B')]),
    }, maxseq=maxseq, **kw)


def chain3_lazyskip(maxseq=3, **kw):
    """the relay returns a callable for the frames it skips: evaluated when the sender is ready, it yields None"""
    t = chain3(maxseq=maxseq, skip=(1,), **kw)
    t.filters['A']['beh']['lazy'] = True
    t.name = 'Chain3LazySkip'
    return t


def join_sparse_eph(maxseq=40, **kw):
    """a join of a source whose ids are sparse (a relay that passes every fourth frame) and an origin that has to be pulled up to
    each of those ids by the join's requests; a '?' listener on that origin"""
    return Topo('JoinSparseEph', {
        'S': dict(nout=1, beh=beh('origin', tseq=[['main']])),
        'R': dict(srcs=[src('S')], nout=1, beh=beh('relay', skip=tuple(q for q in range(0, 200) if q % 4))),
        'Y': dict(nout=1, beh=beh('origin', tseq=[['main']])),
        'F': dict(srcs=[src('R', topics=[('main', 'x')]), src('Y', topics=[('main', 'y')])]),
        'T': dict(srcs=[src('Y', eph=1)]),
    }, maxseq=maxseq, **kw)


def same_id(topo, names, cid):
    """the named filters are configured with the same filter id `cid` (replicas; the protocol tells them apart by uid)"""
    for f in names:
        topo.filters[f]['cid'] = cid
    topo.name += 'SameId'
    return topo


def with_required(topo):
    """every publisher declares its synchronized consumers as required outputs (the C03 assumption)"""
    for g in topo.names:
        req = sorted({c[0] for c in topo.conns_of(g) if topo.src_of(c)['eph'] == 0})
        if req and topo.filters[g]['nout']:
            topo.filters[g]['required'] = req
    topo.name += 'Req'
    return topo


def chain3_lazy(maxseq=2, **kw):
    t = chain3(maxseq=maxseq, **kw)
    t.filters['S']['beh']['lazy'] = True
    t.name = 'Chain3Lazy'
    return t


def tee_rejoin_eph(maxseq=2, **kw):
    """S -> A -> K and S -> E(?) -> K(?): an ephemeral branch rejoined as an ephemeral source"""
    return Topo('TeeRejoinEph', {
        'S': dict(nout=1, beh=beh('origin', tseq=[['main']])),
        'A': dict(srcs=[src('S')], nout=1),
        'E': dict(srcs=[src('S', eph=1)], nout=1, beh=beh('relay', slow=True)),
        'K': dict(srcs=[src('A', topics=[('main', 'a')]), src('E', eph=1, topics=[('main', 'e')])]),
    }, maxseq=maxseq, **kw)


def sync_only(topo):
    """the topology with every ephemeral consumer removed (for the C05 differential)"""
    import copy
    fl = copy.deepcopy(topo.filters)
    drop = set()
    changed = True
    while changed:
        changed = False
        for f, d in list(fl.items()):
            if f in drop:
                continue
            d['srcs'] = [s for s in d['srcs'] if s['pub'] not in drop]
            if topo.filters[f]['srcs'] and (not d['srcs'] or all(s['eph'] > 0 for s in d['srcs'])):
                drop.add(f)
                changed = True
    for f in drop:
        del fl[f]
    for d in fl.values():
        d['srcs'] = [s for s in d['srcs'] if s['eph'] == 0]
    t = Topo(topo.name + 'Sync', fl, maxseq=topo.maxseq, conn_ticks=topo.conn_ticks, pub_hwm=topo.pub_hwm,
             push_hwm=topo.push_hwm, handshake=topo.handshake, topic_order=topo.topic_order)
    t.fidx = {f: topo.fidx[f] for f in fl}      # same ports and path codes as in the full topology
    return t


def balance3(maxseq=4, **kw):
    return Topo('Balance3', {'S': dict(nout=3, outbal=True, beh=beh('origin', tseq=[['main']])),
                             'W1': dict(srcs=[src('S', out=1)], nout=1),
                             'W2': dict(srcs=[src('S', out=2)], nout=1, beh=beh('relay', slow=True)),
                             'W3': dict(srcs=[src('S', out=3)], nout=1),
                             'J': dict(srcs=[src('W1'), src('W2'), src('W3')], srcbal=True)}, maxseq=maxseq, **kw)


def balance2_watch(maxseq=3, **kw):
    t = balance2(maxseq=maxseq, **kw)
    t.filters['X'] = dict(srcs=[src('S', out=1, eph=2)], nout=0, outbal=False, srcbal=False, required=[],
                          beh=beh('sink'))
    t.names.append('X')
    t.fidx['X'] = len(t.names)
    t.name = 'Balance2Watch'
    return t


ALL.update(chain3_lazy=chain3_lazy, tee_rejoin_eph=tee_rejoin_eph, balance3=balance3, balance2_watch=balance2_watch)


def eph_multi(maxseq=3, **kw):
    """a consumer mixing a synchronized source with an ephemeral source that carries two topics per message: an ephemeral set
    must be complete for its subscription even when the other source completes between its per-topic messages"""
    return Topo('EphMulti', {
        'S': dict(nout=1, beh=beh('origin', tseq=T2)),
        'A': dict(srcs=[src('S', topics=[('main', 'main')])], nout=1),
        'K': dict(srcs=[src('A', topics=[('main', 'a')]), src('S', eph=1, topics=[('main', 'm'), ('b', 'mb')])]),
    }, maxseq=maxseq, **kw)


ALL.update(eph_multi=eph_multi)


def eph_first(maxseq=3, slowK=False, **kw):
    """a consumer that lists an ephemeral source BEFORE a synchronized one; the synchronized publisher T has a second consumer"""
    return Topo('EphFirst', {
        'S': dict(nout=1, beh=beh('origin', tseq=[['main']])),
        'T': dict(nout=1, beh=beh('origin', tseq=[['main']])),
        'A': dict(srcs=[src('T')]),
        'K': dict(srcs=[src('S', eph=1, topics=[('main', 'e')]), src('T')], beh=beh('sink', slow=slowK)),
    }, maxseq=maxseq, **kw)


def dual_attach(maxseq=3, slowK=False, **kw):
    """one consumer attached to the same publisher twice: synchronized for topic main, as a '?' listener for topic b"""
    return Topo('DualAttach', {
        'S': dict(nout=1, beh=beh('origin', tseq=[['main', 'b']])),
        'K': dict(srcs=[src('S', topics=[('main', 'main')]), src('S', eph=1, topics=[('b', 'b')])], beh=beh('sink', slow=slowK)),
    }, maxseq=maxseq, **kw)


ALL.update(eph_first=eph_first, dual_attach=dual_attach)


def join_late(maxseq=6, **kw):
    """S -> A and S -> K <- T: K joins late (it is held back while A drives S ahead), so K meets S at a high id and T at id 0"""
    return Topo('JoinLate', {
        'S': dict(nout=1, beh=beh('origin', tseq=[['main']])),
        'T': dict(nout=1, beh=beh('origin', tseq=[['main']])),
        'A': dict(srcs=[src('S')]),
        'K': dict(srcs=[src('T', topics=[('main', 'b')]), src('S', topics=[('main', 'a')])]),
    }, maxseq=maxseq, **kw)


def prefix_topics(maxseq=2, **kw):
    """topic names that are prefixes of one another: a named subscription must not receive the longer-named topic"""
    return Topo('PrefixTopics', {
        'S': dict(nout=1, beh=beh('origin', tseq=[['mainx', 'main', 'b']])),
        'K': dict(srcs=[src('S', topics=[('main', 'main')])]),
        'M': dict(srcs=[src('S', topics=[('main', 'm'), ('b', 'b')])]),
        'X': dict(srcs=[src('S', topics=[('mainx', 'mainx')])]),
    }, maxseq=maxseq, topic_order=('mainx', 'main', 'b', 'c', '_filter'), **kw)


ALL.update(join_late=join_late, prefix_topics=prefix_topics)


def tee_rejoin_multi(maxseq=4, **kw):
    """tee-rejoin whose branch A carries a topic set that varies per id (main+b / main); branch B skips ids"""
    return Topo('TeeRejoinMulti', {
        'S': dict(nout=1, beh=beh('origin', tseq=[['b', 'main'], ['b', 'main'], ['main']])),
        'A': dict(srcs=[src('S')], nout=1),
        'B': dict(srcs=[src('S', topics=[('main', 'main')])], nout=1, beh=beh('relay', skip=(1, 4))),
        'K': dict(srcs=[src('A'), src('B', topics=[('main', 'x')])]),
    }, maxseq=maxseq, topic_order=('b', 'main', 'c', '_filter'), **kw)   # the varying topic 'b' is published first


def tee_rejoin_relay(maxseq=4, skipA=(2,), slowB=True, **kw):
    """the rejoin K is a relay (it has outputs and a consumer Z): recv() is called with the sender's state"""
    return Topo('TeeRejoinRelay', {
        'S': dict(nout=1, beh=beh('origin', tseq=[['main']])),
        'A': dict(srcs=[src('S')], nout=1, beh=beh('relay', skip=skipA)),
        'B': dict(srcs=[src('S')], nout=1, beh=beh('relay', slow=slowB)),
        'K': dict(srcs=[src('A', topics=[('main', 'a')]), src('B', topics=[('main', 'main')])], nout=1),
        'Z': dict(srcs=[src('K')]),
    }, maxseq=maxseq, **kw)


def tee_names(maxseq=4, **kw):
    """two required consumers whose ids are prefixes of one another (K, K2)"""
    return Topo('TeeNames', {
        'S': dict(nout=1, required=['K', 'K2'], beh=beh('origin', tseq=[['main']])),
        'K2': dict(srcs=[src('S')]),
        'K': dict(srcs=[src('S')]),
    }, maxseq=maxseq, **kw)


def tee_rejoin_absent(maxseq=5, **kw):
    """rejoin where one branch's subscribed topic is absent on odd frames (its set is completed by the topics message alone)
    and the other branch is slower than a request interval"""
    return Topo('TeeRejoinAbsent', {
        'S': dict(nout=1, beh=beh('origin', tseq=[['main', 'b'], ['main']])),
        'A': dict(srcs=[src('S', topics=[('main', 'main')])], nout=1, beh=beh('relay', slow=True)),
        'B': dict(srcs=[src('S')], nout=1),
        'K': dict(srcs=[src('A', topics=[('main', 'a')]), src('B', topics=[('b', 'dets')])]),
    }, maxseq=maxseq, **kw)


ALL.update(tee_rejoin_multi=tee_rejoin_multi, tee_rejoin_relay=tee_rejoin_relay, tee_names=tee_names, tee_rejoin_absent=tee_rejoin_absent)


def balance2_multi(maxseq=4, **kw):
    """balanced split / rejoin with two topics per frame (the rejoin must keep the sibling branch out while a frame is half read)"""
    t = balance2(maxseq=maxseq, **kw)
    t.filters['S']['beh']['tseq'] = [['main', 'b']]
    t.name = 'Balance2Multi'
    return t


ALL.update(balance2_multi=balance2_multi)


def with_exit(topo, who, at, kind='clean', prop=('clean', 'error'), obey=('clean', 'error')):
    """filter `who` ends itself at original frame `at`; every filter has the same propagate / obey policy"""
    for f, d in topo.filters.items():
        d['prop_exit'], d['obey_exit'] = list(prop), list(obey)
    topo.filters[who]['exit_at'] = at
    topo.filters[who]['exit_kind'] = kind
    topo.name += f'Exit{who}{at}{kind[0]}'
    return topo


def remap_main(maxseq=2, **kw):
    """subscriptions written in the short forms: 'b>' (topic b received as main) and '>m' (main received as m)"""
    return Topo('RemapMain', {
        'S': dict(nout=1, beh=beh('origin', tseq=T2)),
        'K': dict(srcs=[src('S', topics=[('b', 'main')])]),
        'M': dict(srcs=[src('S', topics=[('main', 'm'), ('b', 'main')])]),
    }, maxseq=maxseq, **kw)


def two_addr(maxseq=3, **kw):
    """a NON-balanced publisher bound to two addresses, one synchronized consumer on each"""
    return Topo('TwoAddr', {
        'S': dict(nout=2, beh=beh('origin', tseq=[['main']])),
        'A': dict(srcs=[src('S', out=1)]),
        'K': dict(srcs=[src('S', out=2)]),
    }, maxseq=maxseq, **kw)


def balance2_relay(maxseq=5, skip=(1, 3), **kw):
    """balanced split / rejoin where the rejoin J is a relay that does not forward every frame, followed by a sink"""
    return Topo('Balance2Relay', {
        'S': dict(nout=2, outbal=True, beh=beh('origin', tseq=[['main']])),
        'W1': dict(srcs=[src('S', out=1)], nout=1),
        'W2': dict(srcs=[src('S', out=2)], nout=1),
        'J': dict(srcs=[src('W1'), src('W2')], srcbal=True, nout=1, beh=beh('relay', skip=skip)),
        'Z': dict(srcs=[src('J')]),
    }, maxseq=maxseq, **kw)


ALL.update(remap_main=remap_main, two_addr=two_addr, balance2_relay=balance2_relay)


def explicit_multi(maxseq=5, **kw):
    """an explicit two-topic subscription to a source whose topic set varies per id (both, both, neither, both, one, both),
    behind a relay that skips an id: ids can start with their topics message, topics can be absent and come back"""
    return Topo('ExplicitMulti', {
        'S': dict(nout=1, beh=beh('origin', tseq=[['main', 'b'], ['main', 'b'], ['c'], ['main', 'b'], ['main'], ['main', 'b']])),
        'R': dict(srcs=[src('S')], nout=1, beh=beh('relay', skip=(1,))),
        'K': dict(srcs=[src('R', topics=[('main', 'main'), ('b', 'b')])]),
    }, maxseq=maxseq, **kw)


ALL.update(explicit_multi=explicit_multi)


def chain3_empty(maxseq=4, **kw):
    """the origin's process() returns an empty dict for every second frame: it must arrive downstream as an empty set"""
    t = chain3(maxseq=maxseq, **kw)
    t.filters['S']['beh']['tseq'] = [['main', 'b'], [], ['main']]
    t.name = 'Chain3Empty'
    return t


def chain3_none_empty(maxseq=5, **kw):
    """the relay returns None for frame 1 and (from the origin's empty frame 2) an empty dict next; the sink subscribes to the
    topics explicitly: the first thing it hears of id 2 is the topics message of a set that holds none of its topics"""
    t = chain3(maxseq=maxseq, skip=(1,), **kw)
    t.filters['S']['beh']['tseq'] = [['main', 'b'], ['main', 'b'], [], ['main', 'b'], ['main', 'b']]
    t.filters['K']['srcs'] = [src('A', topics=[('main', 'main'), ('b', 'b')])]
    t.name = 'Chain3NoneEmpty'
    return t


ALL.update(chain3_empty=chain3_empty, chain3_none_empty=chain3_none_empty)


def balance2_eph(maxseq=6, w_ms=None, slow1=True, **kw):
    """balanced splitter with a '?' listener attached to the endpoint of a slow worker; w_ms=(ms1, ms2): both workers
    take virtual time per frame (the listener and the splitter take none), W1 the slower one"""
    t = balance2(maxseq=maxseq, **kw)
    t.filters['W1']['beh']['slow'] = slow1
    if w_ms:
        t.filters['W2']['beh']['slow'] = True
        t.filters['W1']['work_ms'], t.filters['W2']['work_ms'] = w_ms
    t.filters['E'] = dict(srcs=[src('S', out=1, eph=1)], nout=0, outbal=False, srcbal=False, required=[], beh=beh('sink'))
    t.names.append('E')
    t.fidx['E'] = len(t.names)
    t.name = 'Balance2Eph' + ('Slow2' if w_ms else '') + ('' if slow1 else 'Fast')
    return t


def bal_listen(maxseq=4, **kw):
    """the smallest balanced splitter with a '?' listener: two sink workers, the listener on the first worker's endpoint"""
    return Topo('BalListen', {'S': dict(nout=2, outbal=True, beh=beh('origin', tseq=[['main']])),
                              'W1': dict(srcs=[src('S', out=1)]),
                              'W2': dict(srcs=[src('S', out=2)]),
                              'E': dict(srcs=[src('S', out=1, eph=1)])}, maxseq=maxseq, **kw)


ALL.update(balance2_eph=balance2_eph, bal_listen=bal_listen)
